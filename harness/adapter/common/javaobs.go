package common

import (
	"github.com/modernizing/coca/pkg/domain/core_domain"

	"verifharness/oracle"
)

func convAnnos(as []core_domain.CodeAnnotation) []oracle.ObsAnno {
	var out []oracle.ObsAnno
	for _, a := range as {
		oa := oracle.ObsAnno{Name: a.Name}
		for _, kv := range a.KeyValues {
			oa.KVs = append(oa.KVs, [2]string{kv.Key, kv.Value})
		}
		out = append(out, oa)
	}
	return out
}

// ToObserved converts coca's code model into the oracle's neutral representation.
func ToObserved(ds []core_domain.CodeDataStruct) []oracle.ObsType {
	var out []oracle.ObsType
	for _, d := range ds {
		t := oracle.ObsType{Package: d.Package, Name: d.NodeName, Kind: d.Type, FilePath: d.FilePath, Extend: d.Extend, Annotations: convAnnos(d.Annotations)}
		for _, f := range d.Functions {
			of := oracle.ObsFunc{Name: f.Name, ReturnType: f.ReturnType, IsCtor: f.IsConstructor, Line: f.Position.StartLine, Col: f.Position.StartLinePosition,
				StopLine: f.Position.StopLine, StopCol: f.Position.StopLinePosition, Annotations: convAnnos(f.Annotations), Modifiers: f.Modifiers, IsReturnNull: f.IsReturnNull}
			for _, p := range f.Parameters {
				of.Params = append(of.Params, [2]string{p.TypeType, p.TypeValue})
			}
			for _, c := range f.FunctionCalls {
				of.Calls = append(of.Calls, oracle.ObsCall{Package: c.Package, NodeName: c.NodeName, FunctionName: c.FunctionName, Type: c.Type,
					Line: c.Position.StartLine, Col: c.Position.StartLinePosition, StopLine: c.Position.StopLine, StopCol: c.Position.StopLinePosition})
			}
			t.Functions = append(t.Functions, of)
		}
		out = append(out, t)
	}
	return out
}
