// Package c05 checks that a method rename rewrites exactly the identifier tokens of the renamed method's
// declaration(s) and of the calls the model attributes to it, and nothing else.
package c05

import (
	"encoding/json"
	"fmt"
	"io/ioutil"
	"os"
	"path/filepath"
	"sort"
	"strings"

	"github.com/modernizing/coca/pkg/application/analysis/javaapp"
	rename "github.com/modernizing/coca/pkg/application/refactor/rename"
	"github.com/modernizing/coca/pkg/domain/core_domain"

	"verifharness/adapter/common"
	"verifharness/gen/javagen"
	"verifharness/oracle"
	"verifharness/run"
)

func cases(tier string) int {
	if tier == "thorough" {
		return 8000
	}
	return 600
}

func cliEvery(tier string) int {
	if tier == "thorough" {
		return 25
	}
	return 17
}

var Check = &run.Check{
	ID:    "C05",
	Level: "exploration",
	Rule: "case = generated conventional Java project (1-6 files; call sites biased towards one 'hot' method: implicit calls, field/parameter/local receivers in other files, several on one line, declaration and call on one line; " +
		"string literals, block comments and inline comments with 2-, 3- and 4-byte UTF-8 before sites; decoys: same method name in another class, string literals that look like calls) + rename request old -> new with |new| in 1..40 " +
		"(shorter / equal / longer); the model handed to the refactoring is the real full-pass model; expected bytes = original bytes with exactly the identifier tokens of the model-attributed declaration(s) and calls replaced; " +
		"then the tree is re-analysed and compared with the renamed original model; run through rename.RenameMethodApp(deps).Refactoring(conf) and, every Nth case, `coca analysis` + `coca refactor -R conf -d deps.json`; " +
		"non-trivial = (>= 2 sites on one line or a multi-byte character before a site on its line) and >= 2 files with sites; distinct = hash of (per-file edit counts, max edits per line, multi-byte flags, length relation)",
	Assumptions: []string{
		"the edit set is defined by the model, as the statement says; a model call entry is mapped to its planted token through (function, ordinal) and a declaration through (name, parameter list)",
		"cases whose model disagrees with the planted ground truth in names or counts (C01/C02's business) are counted as inconclusive, not decided here",
		"a quarter of the files use \\r\\n line ends (the \\r is one of the 'other bytes' that must survive)",
	},
	Cases: cases,
	Floor: func(tier string) int {
		if tier == "thorough" {
			return 300
		}
		return 20
	},
	Run: runCase,
}

var opts = javagen.Opts{FieldInitCalls: true, TwoTypesPerFile: true, CaseTwinClasses: true, AnonClasses: true, AccessorNames: true, MinFiles: 1, MaxFiles: 6, MaxMethods: 6, MaxParams: 3, MaxFields: 4, Interfaces: true, Generics: true, Annotations: true, Ctors: true, Overloads: true,
	Bodies: true, MaxStmts: 8, MaxSites: 25, Lambdas: true, MultiByte: true, HotBias: 6, FieldsFirst: true, CRLF: true, ExoticNames: true}

var javaKeywords = map[string]bool{"do": true, "if": true, "for": true, "int": true, "new": true, "try": true, "var": true, "byte": true, "case": true, "char": true, "else": true, "enum": true, "goto": true, "long": true, "this": true, "void": true, "null": true, "true": true}

func newName(r *run.Rand, taken map[string]bool) string {
	for {
		n := r.Range(1, 40)
		if r.Chance(1, 3) {
			n = r.Range(1, 6)
		}
		var sb strings.Builder
		exotic := r.Chance(1, 4) // non-ASCII letters and '$' are legal in Java identifiers
		for i := 0; i < n; i++ {
			switch {
			case exotic && r.Chance(1, 4):
				sb.WriteString(r.Pick([]string{"$", "ü", "é", "Ü", "名", "Ω", "я", "ß"}))
			case i == 0:
				sb.WriteByte(byte('a' + r.Intn(26)))
			default:
				sb.WriteByte("abcdefghijklmnopqrstuvwxyzABCDEFGHIJKLMNOPQRSTUVWXYZ0123456789_"[r.Intn(63)])
			}
		}
		s := sb.String()
		if !taken[s] && !javaKeywords[s] {
			return s
		}
	}
}

type edit struct {
	off  int
	line int
	what string
}

func analyse(dir string) (full []core_domain.CodeDataStruct, panicked bool, val, site string) {
	panicked, val, site = run.Guard(func() {
		ia := javaapp.NewJavaIdentifierApp()
		ident := ia.AnalysisPath(dir)
		fa := javaapp.NewJavaFullApp()
		full = fa.AnalysisPath(dir, ident)
	})
	return
}

func runCase(c *run.Ctx, o *run.Outcome) {
	r := c.Rng
	o2 := opts
	o2.MultiByte = c.Index%3 != 0
	o2.HotBias = []int{6, 8, 3, 0}[c.Index%4]
	p := javagen.Generate(r.Fork(), o2)
	if err := javagen.SelfCheck(p); err != nil {
		o.SetInconclusive("generator self-check: " + err.Error())
		return
	}
	taken := map[string]bool{}
	type target struct {
		f *javagen.File
		t *javagen.TypeDecl
		m *javagen.Method
	}
	var targets []target
	var hot *target
	for _, f := range p.Files {
		if f.Type == nil {
			continue
		}
		if ne, first := common.JavaSyntaxErrors(f.Text); ne > 0 {
			o.SetInconclusive("generated file rejected by coca's Java parser: " + first)
			return
		}
		for _, ty := range f.Types() {
			for _, m := range ty.Methods() {
				taken[m.Name] = true
				if !m.IsCtor {
					t := target{f, ty, m}
					targets = append(targets, t)
					if f.Pkg == p.HotPkg && ty.Name == p.HotClass && m.Name == p.HotMethod && hot == nil {
						hot = &t
					}
				}
			}
		}
		if len(f.Extra) > 0 {
			o.Count("files_with_two_top_level_types", 1)
		}
	}
	if len(targets) == 0 {
		o.SetInconclusive("no method to rename")
		return
	}
	tg := targets[r.Intn(len(targets))]
	if hot != nil && r.Chance(5, 6) {
		tg = *hot
	}
	oldName := tg.m.Name
	nn := newName(r, taken)
	cls := tg.f.Pkg + "." + tg.t.Name
	conf := cls + "." + oldName + " -> " + cls + "." + nn
	dir := filepath.Join(c.Scratch(), "proj")
	if _, err := common.WriteProject(dir, p); err != nil {
		o.SetInconclusive("cannot write project: " + err.Error())
		return
	}
	files := map[string]string{}
	byAbs := map[string]*javagen.File{}
	for _, f := range p.Files {
		files[f.RelPath] = f.Text
		byAbs[filepath.Join(dir, filepath.FromSlash(f.RelPath))] = f
	}
	witness := map[string]interface{}{"files": files, "rename": conf}
	o.Witness = witness
	useCLI := c.CocaBin != "" && c.Index%cliEvery(c.Tier) == 0

	var full []core_domain.CodeDataStruct
	if useCLI {
		o.Count("cli_cases", 1)
		res := common.RunCLI(c.CocaBin, c.Scratch(), nil, "analysis", "-p", dir)
		fb, err := ioutil.ReadFile(filepath.Join(c.Scratch(), "coca_reporter", "deps.json"))
		if res.ExitCode != 0 || err != nil || json.Unmarshal(fb, &full) != nil {
			o.SetInconclusive("`coca analysis` failed before the rename (C01/C09's business)")
			return
		}
	} else {
		var panicked bool
		full, panicked, _, _ = analyse(dir)
		if panicked {
			o.SetInconclusive("analysis panicked before the rename (C09's business)")
			return
		}
	}
	// the edit set, as the model defines it
	edits := map[string][]edit{} // rel path -> edits
	for _, ds := range full {
		f := byAbs[ds.FilePath]
		var ty *javagen.TypeDecl
		if f != nil {
			for _, cand := range f.Types() {
				if cand.Name == ds.NodeName {
					ty = cand
				}
			}
		}
		if ty == nil {
			o.SetInconclusive("model lists a type the generator did not plant there (C01's business)")
			return
		}
		planted := map[string][]*javagen.Method{}
		for _, m := range ty.Methods() {
			k := m.Name + "/" + fmt.Sprint(len(m.Params))
			planted[k] = append(planted[k], m)
		}
		{
			// calls written outside any method (field initialisers): the model keeps them under nameless function
			// entries and/or in the type's own call list; they are attributed like any other call and must be renamed
			// like any other call
			var named []core_domain.CodeCall
			for _, fn := range ds.Functions {
				if fn.Name != "" {
					continue
				}
				for _, call := range fn.FunctionCalls {
					if call.FunctionName != "" {
						named = append(named, call)
					}
				}
			}
			for _, call := range ds.FunctionCalls {
				if call.FunctionName != "" {
					named = append(named, call)
				}
			}
			var sites []*javagen.Site
			for _, st := range ty.InitSites {
				if st.Kind == "call" {
					sites = append(sites, st)
				}
			}
			if len(named) != len(sites) {
				o.SetInconclusive("model and planted field-initialiser calls differ in number (outside C02's statement)")
				return
			}
			for i, call := range named {
				if call.Package+"."+call.NodeName == cls && call.FunctionName == oldName {
					if sites[i].Name != oldName {
						o.SetInconclusive("model call does not match the planted field-initialiser site")
						return
					}
					edits[f.RelPath] = append(edits[f.RelPath], edit{sites[i].ByteOff, sites[i].Line, "call"})
					o.Count("edits_expected_in_field_initialisers", 1)
				}
			}
		}
		for _, fn := range ds.Functions {
			if fn.Name == "" {
				continue // calls written outside any method: handled below, for the type as a whole
			}
			ms := planted[fn.Name+"/"+fmt.Sprint(len(fn.Parameters))]
			var pm *javagen.Method
			for _, cand := range ms {
				ok := true
				for i, pr := range cand.Params {
					if strings.Join(strings.Fields(pr.Type), "") != fn.Parameters[i].TypeType {
						ok = false
					}
				}
				if ok {
					pm = cand
				}
			}
			if pm == nil {
				o.SetInconclusive("model function without a planted counterpart (C01's business)")
				return
			}
			if ds.Package+"."+ds.NodeName == cls && fn.Name == oldName {
				edits[f.RelPath] = append(edits[f.RelPath], edit{pm.NameByteOff, pm.NameLine, "declaration"})
			}
			if len(fn.FunctionCalls) != len(pm.Sites) && !pm.NoBody {
				o.SetInconclusive("model and planted call sites differ in number (C02's business)")
				if os.Getenv("VERIF_DEBUG") != "" {
					o.SetInconclusive(fmt.Sprintf("DEBUG %s.%s %s: model %d planted %d\n%s", ds.NodeName, fn.Name, f.RelPath, len(fn.FunctionCalls), len(pm.Sites), f.Text))
				}
				return
			}
			for i, call := range fn.FunctionCalls {
				if call.Package+"."+call.NodeName == cls && call.FunctionName == oldName {
					s := pm.Sites[i]
					if s.Name != oldName {
						o.SetInconclusive("model call does not match the planted site (C02's business)")
						return
					}
					edits[f.RelPath] = append(edits[f.RelPath], edit{s.ByteOff, s.Line, "call"})
				}
			}
		}
	}
	// expected bytes and classification of the planted situation
	expected := map[string]string{}
	filesWithSites, maxPerLine, mbBefore, nEdits := 0, 0, false, 0
	declAndCall := false
	var shapeParts []string
	for _, f := range p.Files {
		es := edits[f.RelPath]
		if len(es) == 0 {
			expected[f.RelPath] = f.Text
			continue
		}
		filesWithSites++
		nEdits += len(es)
		perLine := map[int]int{}
		kinds := map[int]map[string]bool{}
		var offs []int
		for _, e := range es {
			offs = append(offs, e.off)
			perLine[e.line]++
			if kinds[e.line] == nil {
				kinds[e.line] = map[string]bool{}
			}
			kinds[e.line][e.what] = true
			ls := strings.LastIndex(f.Text[:e.off], "\n") + 1
			for _, ch := range f.Text[ls:e.off] {
				if ch > 127 {
					mbBefore = true
				}
			}
		}
		for l, n := range perLine {
			if n > maxPerLine {
				maxPerLine = n
			}
			if len(kinds[l]) == 2 {
				declAndCall = true
			}
		}
		expected[f.RelPath] = oracle.ReplaceTokens(f.Text, offs, len(oldName), nn)
		shapeParts = append(shapeParts, fmt.Sprint(len(es)))
	}
	sort.Strings(shapeParts)
	rel := "equal"
	if len(nn) < len(oldName) {
		rel = "shorter"
	} else if len(nn) > len(oldName) {
		rel = "longer"
	}
	o.Shape = run.ShapeHash(strings.Join(shapeParts, ","), maxPerLine, mbBefore, rel, declAndCall)
	o.NonTrivial = (maxPerLine >= 2 || mbBefore) && filesWithSites >= 2
	o.Count("edits_expected", nEdits)
	o.Count("files_with_sites", filesWithSites)
	o.Seen("length_relation", rel)
	if maxPerLine >= 2 {
		o.Count("cases_with_several_sites_on_one_line", 1)
	}
	if mbBefore {
		o.Count("cases_with_multibyte_before_a_site", 1)
	}
	if declAndCall {
		o.Count("cases_with_declaration_and_call_on_one_line", 1)
	}
	situation := "plain"
	switch {
	case maxPerLine >= 2 && mbBefore:
		situation = "several-sites-on-one-line+multibyte-before-site"
	case maxPerLine >= 2:
		situation = "several-sites-on-one-line"
	case mbBefore:
		situation = "multibyte-before-site"
	}
	if tg.t.Kind == "Interface" {
		situation += "/interface-method"
	}
	if len(tg.f.Extra) > 0 {
		situation += "/file-with-two-types"
	}

	// the refactoring
	if useCLI {
		confPath := filepath.Join(c.Scratch(), "rename.config")
		ioutil.WriteFile(confPath, []byte(conf+"\n"), 0o644)
		res := common.RunCLI(c.CocaBin, c.Scratch(), nil, "refactor", "-R", confPath, "-d", filepath.Join("coca_reporter", "deps.json"))
		if res.TimedOut {
			o.SetInconclusive("cli watchdog")
			return
		}
		if res.ExitCode != 0 || strings.Contains(res.Stderr, "panic:") {
			o.Violate("cli-crash/"+situation, "`coca refactor -R` exit %d: %s", res.ExitCode, strings.TrimSpace(res.Stderr))
			return
		}
	} else {
		panicked, val, site := run.Guard(func() { rename.RenameMethodApp(full).Refactoring(conf) })
		if panicked {
			o.Violate("panic@"+site+"/"+situation, "rename panicked: %s", val)
			return
		}
	}
	bad := 0
	for _, f := range p.Files {
		got, err := ioutil.ReadFile(filepath.Join(dir, filepath.FromSlash(f.RelPath)))
		if err != nil {
			o.Violate("file-vanished", "%s cannot be read after the rename: %v", f.RelPath, err)
			continue
		}
		if string(got) != expected[f.RelPath] {
			bad++
			line, want, have := oracle.FirstDiffLine(expected[f.RelPath], string(got))
			sig := "bytes-differ/" + situation
			if len(edits[f.RelPath]) == 0 {
				sig = "bytes-differ/file-without-sites"
			}
			o.Violate(sig, "%s (rename %s): line %d should read %q, reads %q", f.RelPath, conf, line, want, have)
		} else if len(edits[f.RelPath]) > 0 {
			o.Count("files_rewritten_exactly", 1)
		} else {
			o.Count("files_left_untouched", 1)
		}
	}
	if bad > 0 {
		return
	}
	// re-analysis must give the original model with the method and the calls renamed
	full2, panicked, val, site := analyse(dir)
	if panicked {
		o.Violate("reanalysis-panic@"+site, "re-analysis of the rewritten tree panicked: %s", val)
		return
	}
	editedLines := map[string]map[int]bool{}
	for rel, es := range edits {
		abs := filepath.Join(dir, filepath.FromSlash(rel))
		editedLines[abs] = map[int]bool{}
		for _, e := range es {
			editedLines[abs][e.line] = true
		}
	}
	want := canon(full, cls, oldName, nn, editedLines, oldName, nn)
	have := canon(full2, "", "", "", editedLines, oldName, nn)
	if d := oracle.FirstDiff(want, have); d != "" {
		o.Violate("reanalysis-differs/"+situation, "model of the rewritten tree differs from the renamed original model: %s", d)
	} else {
		o.Count("reanalysis_matches", 1)
	}
	if c.Index < 64 {
		o.Sample = map[string]interface{}{"rename": conf, "edits_expected": nEdits, "files": len(p.Files), "situation": situation}
	}
	_ = os.Remove
}

// canon renders a model as sorted lines; if cls != "" the rename is applied to it first.
// neutralise replaces the identifier tokens a and b inside a receiver text by one placeholder.
func neutralise(text, a, b string) string {
	var sb strings.Builder
	isId := func(c byte) bool {
		return c == '_' || c == '$' || c >= '0' && c <= '9' || c >= 'a' && c <= 'z' || c >= 'A' && c <= 'Z' || c >= 0x80
	}
	for i := 0; i < len(text); {
		if isId(text[i]) {
			j := i
			for j < len(text) && isId(text[j]) {
				j++
			}
			if tok := text[i:j]; tok == a || tok == b {
				sb.WriteString("<renamed-method>")
			} else {
				sb.WriteString(tok)
			}
			i = j
			continue
		}
		sb.WriteByte(text[i])
		i++
	}
	return sb.String()
}

// A chained call "old().next()" is recorded with the text of the previous callee as its receiver name; that text
// follows the rename by construction (so does the text of any receiver expression that contains a call of the method), so the old and the new method name are neutralised inside receiver texts
// on both sides (chainOld / chainNew).
func canon(ds []core_domain.CodeDataStruct, cls, oldName, newName string, edited map[string]map[int]bool, chainOld, chainNew string) []string {
	var out []string
	for _, d := range ds {
		for _, fn := range d.Functions {
			name := fn.Name
			if cls != "" && d.Package+"."+d.NodeName == cls && name == oldName {
				name = newName
			}
			var ps []string
			for _, p := range fn.Parameters {
				ps = append(ps, p.TypeType+" "+p.TypeValue)
			}
			var cs []string
			for _, c := range fn.FunctionCalls {
				cn := c.FunctionName
				if cls != "" && c.Package+"."+c.NodeName == cls && cn == oldName {
					cn = newName
				}
				col := fmt.Sprint(c.Position.StartLinePosition)
				if edited[d.FilePath][c.Position.StartLine] {
					col = "*"
				}
				node := neutralise(c.NodeName, chainOld, chainNew)
				cs = append(cs, fmt.Sprintf("%s.%s.%s@%d:%s", c.Package, node, cn, c.Position.StartLine, col))
			}
			out = append(out, fmt.Sprintf("%s|%s.%s|%s|%s|%s(%s)|line %d|calls %s", d.FilePath, d.Package, d.NodeName, d.Type, fn.ReturnType, name, strings.Join(ps, ","), fn.Position.StartLine, strings.Join(cs, " ")))
		}
	}
	sort.Strings(out)
	return out
}
