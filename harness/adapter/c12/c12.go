// Package c12 checks that the extracted HTTP APIs are exactly the annotated Spring handler methods
// (api.JavaApiApp.AnalysisPath wired as cmd/api.go does; every Nth case `coca analysis` + `coca api -f`).
package c12

import (
	"encoding/json"
	"fmt"
	"io/ioutil"
	"os"
	"path/filepath"
	"sort"
	"strings"

	"github.com/modernizing/coca/pkg/application/analysis/javaapp"
	"github.com/modernizing/coca/pkg/application/api"
	"github.com/modernizing/coca/pkg/domain/api_domain"
	"github.com/modernizing/coca/pkg/domain/core_domain"

	"verifharness/adapter/common"
	"verifharness/gen/springgen"
	"verifharness/oracle"
	"verifharness/run"
)

func cliCases(tier string) int {
	if tier == "thorough" {
		return 300
	}
	return 20
}

func inProcCases(tier string) int {
	if tier == "thorough" {
		return 6000
	}
	return 300
}

func cases(tier string) int { return inProcCases(tier) + cliCases(tier) }

// every Nth case goes through the real binary: N chosen so that the CLI slice has cliCases(tier) members
func isCLI(tier string, idx int) bool {
	n := cases(tier) / cliCases(tier)
	block := idx / n
	// the position inside the block moves from block to block so that the (slow) CLI cases are spread over
	// all worker processes (case j runs on worker j mod k)
	return block < cliCases(tier) && idx%n == (block*5+3)%n
}

var Check = &run.Check{
	ID:    "C12",
	Level: "exploration",
	Rule: "case = generated Spring project of 1-6 classes with planted ground truth: controllers (@RestController/@Controller; class-level @RequestMapping absent / bare / (\"/p\") / (value = \"/p\") / constant, literal base paths also ending in '/' with method paths with and without leading '/', " +
		"written before or after the controller annotation, other class annotations in between), members in any order (handlers with Get/Post/Put/Delete/RequestMapping in bare, shorthand, value=, value+method=, method= forms, " +
		"other annotations before/after the mapping, 0-4 parameters with the @RequestBody parameter at any position; non-handler methods also as first member; annotated fields; constructors), and classes without controller " +
		"annotation (@Service/@Component/@Repository/@Configuration/Feign interface/plain/abstract base/DTO) carrying the same method annotations and sometimes a class-level mapping. " +
		"Each project is analysed in its natural single-module layout, in a multi-module layout whose directory names force a random file order, in the reverse of that order, as a random proper subset, and up to 3 controllers (+ 1 other class) each alone; " +
		"each analysis = identifier pass + full pass + JavaApiApp.AnalysisPath as in cmd/api.go (every Nth case: `coca analysis -p DIR` + `coca api -f -p DIR`, reading apis.json and api.csv). " +
		"non-trivial = >= 2 controllers whose own base paths are determined and differ, >= 1 handler with a @RequestBody parameter, >= 1 non-handler method inside a controller; " +
		"distinct = hash of the project structure (class kinds, class-level mapping kinds and order, member kinds, mapping annotation and form, position of the body parameter), names excluded",
	Assumptions: []string{
		"every generated file is accepted by coca's own Java parser (rejects are counted as inconclusive)",
		"HttpMethod is asserted only where an annotation names exactly one verb (Get/Post/Put/DeleteMapping, @RequestMapping with method = RequestMethod.X or statically imported X); the verb of @RequestMapping without method= is not asserted",
		"Uri is asserted as <own base path><method path> only where both are literals written in the file (no class-level mapping = empty base); bare mappings, method=-only mappings, bare class-level @RequestMapping and constant references leave the Uri unasserted; the expectation is the plain concatenation of the two written strings, also for base paths ending in '/' (generated in shorthand and value= form; their handlers carry method paths with and without leading '/'); path= / several paths / several verbs are not generated",
		"RequestBodyClass is asserted as the declared type text of the @RequestBody parameter (simple or qualified class names only), and as empty when no parameter carries @RequestBody",
		"MethodParams, ResponseStatus and the order of the list are not asserted; the fields left unasserted above are still compared between the analyses of the same class alone and together with others (independence relation)",
		"controllers may declare nested classes (before, between and after the handlers) and a second package-private top-level class in their file; those classes carry no mapping annotations, their methods must contribute nothing and their names must not appear as ClassName of a handler; handlers inside nested classes and overloaded handlers are not generated; the public class and its file name coincide (Java convention), so a class name taken from the file name is not distinguishable",
		"CLI cases spell the scanned directory in the 9 ways of common.SpellRoot (absolute, relative, ./, trailing slash, ., .., sub/.., ../sibling), rotating over cases and analyses; `coca analysis` and `coca api -f` run in the same working directory and coca_reporter/ is read from there",
		"in-process cases first analyse a neutral one-file project twice so that listener state left behind by the previous case of the same worker cannot reach this case (a case stays a pure function of its index; leaks between the analyses inside a case remain observable)",
		"a panic of the identifier/full pass (prerequisites of the API scan, properties C01/C02/C09) makes the case inconclusive, a panic of the API scan is a violation",
	},
	Cases: cases,
	Floor: func(tier string) int {
		if tier == "thorough" {
			return 400
		}
		return 25
	},
	Run:        runCase,
	MaxSamples: 3,
}

type runRec struct {
	Name     string   `json:"name"`
	Files    []string `json:"files_in_walk_order"`
	Observed []string `json:"observed"`
	Csv      []string `json:"csv_rows,omitempty"`
}

const primeText = `package prime;

@RestController
@RequestMapping("")
public class Prime {
    @GetMapping("/")
    public void p() {
    }
}
`

func conv(apis []api_domain.RestAPI) []oracle.SpringEntry {
	var out []oracle.SpringEntry
	for _, a := range apis {
		out = append(out, oracle.SpringEntry{HttpMethod: a.HttpMethod, Uri: a.Uri, RequestBodyClass: a.RequestBodyClass, PackageName: a.PackageName, ClassName: a.ClassName, MethodName: a.MethodName})
	}
	return out
}

func strs(es []oracle.SpringEntry) []string {
	var out []string
	for _, e := range es {
		out = append(out, e.String())
	}
	return out
}

// oneCharConst reports whether a class of the run writes a one-character constant as mapping value.
func oneCharConst(classes []*springgen.Class) bool {
	is := func(form, path string) bool {
		return (form == springgen.FormConst || form == springgen.FormConstValue || form == springgen.ClassMapConst || form == springgen.ClassMapConstValue) && len(path) == 1
	}
	for _, c := range classes {
		if is(c.ClassMap, c.Base) {
			return true
		}
		for _, m := range c.Members {
			if m.Mapping != nil && is(m.Mapping.Form, m.Mapping.Path) {
				return true
			}
		}
	}
	return false
}

func parseCsv(text string) ([]oracle.SpringEntry, error) {
	var out []oracle.SpringEntry
	header := false
	for _, line := range strings.Split(text, "\n") {
		if strings.TrimSpace(line) == "" {
			continue
		}
		cells := strings.Split(line, ",")
		for i := range cells {
			cells[i] = strings.TrimSpace(cells[i])
		}
		if !header {
			header = true
			if len(cells) != 4 || strings.ToUpper(cells[1]) != "METHOD" || strings.ToUpper(cells[2]) != "URI" {
				return nil, fmt.Errorf("unexpected header %q", line)
			}
			continue
		}
		if len(cells) != 4 {
			return nil, fmt.Errorf("row with %d cells: %q", len(cells), line)
		}
		caller := cells[3]
		e := oracle.SpringEntry{HttpMethod: cells[1], Uri: cells[2]}
		if i := strings.LastIndex(caller, "."); i >= 0 {
			e.MethodName = caller[i+1:]
			rest := caller[:i]
			if j := strings.LastIndex(rest, "."); j >= 0 {
				e.ClassName = rest[j+1:]
				e.PackageName = rest[:j]
			} else {
				e.ClassName = rest
			}
		} else {
			e.MethodName = caller
		}
		out = append(out, e)
	}
	return out, nil
}

func first(s string) string {
	s = strings.TrimSpace(s)
	if len(s) > 400 {
		s = s[:400]
	}
	return strings.ReplaceAll(s, "\n", " / ")
}

type analysis struct {
	rootKind string // CLI: how the scanned directory was spelled
	entries  []oracle.SpringEntry
	csv      []oracle.SpringEntry
	hasCsv   bool
}

// analyse runs one complete analysis of dir. ok=false: the case already carries its verdict for this run.
// In CLI cases the scanned directory is spelled in one of the legal ways (common.SpellRoot, kind chosen by pick);
// `coca analysis` and `coca api` run in the same working directory, which receives coca_reporter/.
func analyse(c *run.Ctx, o *run.Outcome, dir, name string, classes []*springgen.Class, useCLI bool, pick int) (res analysis, ok bool) {
	tag := "/other"
	if oneCharConst(classes) {
		tag = "/one-character-constant-as-mapping-value"
	}
	if useCLI {
		fallback := filepath.Join(c.Scratch(), "cwd-"+name)
		os.MkdirAll(fallback, 0o755)
		work, arg, kind := common.SpellRoot(pick, dir, fallback)
		res.rootKind = kind
		o.Count("cli_root_spelled_"+kind, 1)
		name = name + ", -p " + arg + " (" + kind + ")"
		root := "@root=" + kind
		r1 := common.RunCLI(c.CocaBin, work, nil, "analysis", "-p", arg)
		if r1.TimedOut {
			o.SetInconclusive("cli watchdog")
			return res, false
		}
		if r1.ExitCode != 0 || strings.Contains(r1.Stderr, "panic:") {
			o.SetInconclusive("prerequisite `coca analysis` failed: " + first(r1.Stderr))
			return res, false
		}
		r2 := common.RunCLI(c.CocaBin, work, nil, "api", "-f", "-p", arg)
		if r2.TimedOut {
			o.SetInconclusive("cli watchdog")
			return res, false
		}
		if r2.ExitCode != 0 || strings.Contains(r2.Stderr, "panic:") {
			site := "?"
			for _, l := range strings.Split(r2.Stderr, "\n") {
				if strings.Contains(l, "modernizing/coca/") && !strings.HasPrefix(strings.TrimSpace(l), "/") {
					site = strings.TrimPrefix(strings.TrimSpace(l), "github.com/modernizing/coca/")
					if j := strings.LastIndex(site, "("); j > 0 {
						site = site[:j]
					}
					break
				}
			}
			o.Violate("panic@"+site+tag+root, "[cli, %s] `coca api -f` exit %d: %s", name, r2.ExitCode, first(r2.Stderr))
			return res, false
		}
		jb, err := ioutil.ReadFile(filepath.Join(work, "coca_reporter", "apis.json"))
		var apis []api_domain.RestAPI
		if err != nil || json.Unmarshal(jb, &apis) != nil {
			o.Violate("cli-no-output"+root, "[cli, %s] `coca api -f` left no readable coca_reporter/apis.json in its working directory", name)
			return res, false
		}
		res.entries = conv(apis)
		cb, err := ioutil.ReadFile(filepath.Join(work, "coca_reporter", "api.csv"))
		if err != nil {
			o.Violate("cli-no-output"+root, "[cli, %s] `coca api -f` left no coca_reporter/api.csv in its working directory", name)
			return res, false
		}
		rows, err := parseCsv(string(cb))
		if err != nil {
			o.Violate("cli-csv-unreadable"+root, "[cli, %s] api.csv: %v", name, err)
			return res, false
		}
		res.csv, res.hasCsv = rows, true
		return res, true
	}
	var idents, deps []core_domain.CodeDataStruct
	panicked, val, site := run.Guard(func() {
		ia := javaapp.NewJavaIdentifierApp()
		idents = ia.AnalysisPath(dir)
		fa := javaapp.NewJavaFullApp()
		deps = fa.AnalysisPath(dir, idents)
	})
	if panicked {
		o.SetInconclusive("prerequisite pass panicked at " + site + ": " + val)
		return res, false
	}
	identMap := core_domain.BuildIdentifierMap(idents)
	diMap := core_domain.BuildDIMap(idents, identMap)
	var apis []api_domain.RestAPI
	panicked, val, site = run.Guard(func() {
		apis = new(api.JavaApiApp).AnalysisPath(dir, deps, identMap, diMap)
	})
	if panicked {
		o.Violate("panic@"+site+tag, "[api, %s] JavaApiApp.AnalysisPath panicked: %s", name, val)
		return res, false
	}
	res.entries = conv(apis)
	return res, true
}

func prime(c *run.Ctx) {
	dir := filepath.Join(c.Scratch(), "prime")
	os.MkdirAll(dir, 0o755)
	ioutil.WriteFile(filepath.Join(dir, "Prime.java"), []byte(primeText), 0o644)
	for i := 0; i < 2; i++ {
		run.Guard(func() { new(api.JavaApiApp).AnalysisPath(dir, nil, nil, nil) })
	}
}

func writeRun(root string, classes []*springgen.Class, pathOf func(c *springgen.Class) string) ([]string, error) {
	type pc struct {
		path string
		c    *springgen.Class
	}
	var pcs []pc
	for _, c := range classes {
		rel := pathOf(c)
		full := filepath.Join(root, filepath.FromSlash(rel))
		if err := os.MkdirAll(filepath.Dir(full), 0o755); err != nil {
			return nil, err
		}
		if err := ioutil.WriteFile(full, []byte(c.Text), 0o644); err != nil {
			return nil, err
		}
		pcs = append(pcs, pc{rel, c})
	}
	// filepath.Walk visits directory entries in lexical order, component by component
	sort.Slice(pcs, func(i, j int) bool {
		a, b := strings.Split(pcs[i].path, "/"), strings.Split(pcs[j].path, "/")
		for k := 0; k < len(a) && k < len(b); k++ {
			if a[k] != b[k] {
				return a[k] < b[k]
			}
		}
		return len(a) < len(b)
	})
	var order []string
	for _, p := range pcs {
		order = append(order, p.path)
	}
	return order, nil
}

func runCase(c *run.Ctx, o *run.Outcome) {
	p := springgen.Generate(c.Rng)
	lay := c.Rng.Fork()
	for _, cl := range p.Classes {
		if ne, msg := common.JavaSyntaxErrors(cl.Text); ne > 0 {
			o.SetInconclusive("generated file rejected by coca's Java parser: " + msg)
			o.Witness = map[string]string{cl.NaturalPath(): cl.Text}
			return
		}
	}
	useCLI := c.CocaBin != "" && isCLI(c.Tier, c.Index)

	// ---- what was planted ----
	ctls := p.Controllers()
	o.Shape = run.ShapeHash(springgen.Shape(p))
	bases := map[string]bool{}
	nBody, nNonHandlerInCtl := 0, 0
	var plantedDesc []string
	for _, cl := range p.Classes {
		if cl.Controller {
			o.Count("classes_controller", 1)
			o.Count("class_mapping/"+cl.ClassMap, 1)
			if cl.ClassMap != springgen.ClassMapNone {
				if cl.MarkerFirst {
					o.Count("class_annotation_order/controller-annotation-first", 1)
				} else {
					o.Count("class_annotation_order/class-mapping-first", 1)
				}
			}
			o.Seen("controller_markers", cl.Marker)
			if cl.BaseDetermined() {
				bases[cl.OwnBase()] = true
			}
			nested := false
			for _, ot := range cl.OtherTypes() {
				o.Count("other_class_in_controller_file/"+ot.Where, 1)
				if strings.HasPrefix(ot.Where, "nested") {
					nested = true
				}
			}
			if nested {
				o.Count("controllers_with_nested_class", 1)
			}
			if cl.Second != nil {
				o.Count("controllers_with_second_top_level_class", 1)
			}
			if cl.BaseTrailingSlash() {
				o.Count("controllers_with_base_path_ending_in_slash", 1)
				if cl.MarkerFirst {
					o.Seen("trailing_slash_base_shapes", cl.ClassMap+"/controller-annotation-first")
				} else {
					o.Seen("trailing_slash_base_shapes", cl.ClassMap+"/class-mapping-first")
				}
			}
		} else {
			o.Count("classes_without_controller_annotation", 1)
			o.Seen("non_controller_roles", cl.Role)
			if cl.ClassMap != springgen.ClassMapNone {
				o.Count("non_controller_with_class_level_mapping", 1)
			}
		}
		for _, m := range cl.Members {
			switch m.Kind {
			case springgen.KindHandler:
				o.Seen("handler_annotation_forms", m.Mapping.Anno+"/"+m.Mapping.Form)
				o.Seen("body_positions", m.BodyShape())
				if m.BodyType() != "" {
					nBody++
				}
				if cl.BaseTrailingSlash() && m.Mapping.PathDetermined() {
					if strings.HasPrefix(m.Mapping.Path, "/") {
						o.Count("handlers_under_slash_base_with_leading_slash_path", 1)
					} else if m.Mapping.Path != "" {
						o.Count("handlers_under_slash_base_without_leading_slash_path", 1)
					}
				}
				if m.AfterNested {
					o.Count("handlers_declared_after_a_nested_class", 1)
				}
				if len(m.AnnosAfter) > 0 {
					o.Count("handlers_with_other_annotation_after_mapping", 1)
				}
				want, det := oracle.SpringExpectedUri(cl, m)
				if !det {
					want = "<not determined>"
				}
				verb := m.Mapping.Verb
				if verb == "" {
					verb = "<not determined>"
				}
				plantedDesc = append(plantedDesc, fmt.Sprintf("%s %s body=%q %s.%s.%s  <= %s", verb, want, m.BodyType(), cl.Package, cl.Name, m.Name, m.Mapping.Text))
			case springgen.KindMethod:
				if cl.Controller {
					nNonHandlerInCtl++
					if m.FirstMethodOfClass {
						o.Count("controllers_whose_first_method_is_no_handler", 1)
						if cl.ClassMap != springgen.ClassMapNone {
							o.Count("controllers_whose_first_method_is_no_handler_with_class_mapping", 1)
						}
					}
				}
			case springgen.KindCarrier:
				o.Count("mapping_annotated_methods_in_non_controllers", 1)
			}
		}
	}
	o.NonTrivial = len(bases) >= 2 && nBody >= 1 && nNonHandlerInCtl >= 1
	if useCLI {
		o.Count("cli_cases", 1)
	}

	files := map[string]string{}
	for _, cl := range p.Classes {
		files[cl.NaturalPath()] = cl.Text
	}
	var recs []runRec
	witness := map[string]interface{}{"files_natural_layout": files, "planted_handlers": plantedDesc, "cli": useCLI}
	o.Witness = witness

	if !useCLI {
		prime(c)
	}

	// ---- the analyses ----
	n := len(p.Classes)
	perm := lay.Perm(n)
	rankOf := func(order []int) map[int]int {
		m := map[int]int{}
		for rank, idx := range order {
			m[p.Classes[idx].ID] = rank
		}
		return m
	}
	rev := make([]int, n)
	for i := range perm {
		rev[i] = perm[n-1-i]
	}
	type plan struct {
		name    string
		classes []*springgen.Class
		pathOf  func(cl *springgen.Class) string
	}
	var plans []plan
	plans = append(plans, plan{"all-natural-layout", p.Classes, func(cl *springgen.Class) string { return cl.NaturalPath() }})
	if n >= 2 {
		r1, r2 := rankOf(perm), rankOf(rev)
		plans = append(plans, plan{"all-module-order", p.Classes, func(cl *springgen.Class) string { return cl.ModulePath(r1[cl.ID]) }})
		plans = append(plans, plan{"all-module-order-reversed", p.Classes, func(cl *springgen.Class) string { return cl.ModulePath(r2[cl.ID]) }})
	}
	if n >= 3 {
		k := lay.Range(2, n-1)
		sp := lay.Perm(n)[:k]
		var sub []*springgen.Class
		r3 := map[int]int{}
		for rank, idx := range sp {
			sub = append(sub, p.Classes[idx])
			r3[p.Classes[idx].ID] = rank
		}
		plans = append(plans, plan{"subset-module-order", sub, func(cl *springgen.Class) string { return cl.ModulePath(r3[cl.ID]) }})
	}
	if n >= 2 {
		// alone: every controller, and one of the classes without controller annotation
		var nonCtl []*springgen.Class
		for _, cl := range p.Classes {
			if !cl.Controller && cl.Role != "dto" {
				nonCtl = append(nonCtl, cl)
			}
		}
		var pickNon *springgen.Class
		if len(nonCtl) > 0 {
			pickNon = nonCtl[lay.Intn(len(nonCtl))]
		}
		// at most 3 controllers alone (2 in CLI cases), chosen at random
		maxAlone := 3
		if useCLI {
			maxAlone = 2
		}
		chosen := map[int]bool{}
		for _, idx := range lay.Perm(len(ctls)) {
			if len(chosen) < maxAlone {
				chosen[ctls[idx].ID] = true
			}
		}
		for _, cl := range p.Classes {
			cl := cl
			if (cl.Controller && !chosen[cl.ID]) || (!cl.Controller && cl != pickNon) {
				continue
			}
			plans = append(plans, plan{fmt.Sprintf("alone-%s", cl.Name), []*springgen.Class{cl}, func(x *springgen.Class) string { return x.NaturalPath() }})
		}
	}

	results := map[string]analysis{}
	alone := map[int]analysis{}
	for i, pl := range plans {
		dir := filepath.Join(c.Scratch(), fmt.Sprintf("r%d", i), "proj")
		order, err := writeRun(dir, pl.classes, pl.pathOf)
		if err != nil {
			o.SetInconclusive("cannot write project: " + err.Error())
			return
		}
		res, ok := analyse(c, o, dir, fmt.Sprintf("r%d", i), pl.classes, useCLI, c.Index/(cases(c.Tier)/cliCases(c.Tier))+i)
		rec := runRec{Name: pl.name, Files: order}
		if !ok {
			rec.Observed = []string{"<no result: " + o.Status + ">"}
			recs = append(recs, rec)
			witness["analyses"] = recs
			if o.Status == "inconclusive" {
				return
			}
			continue
		}
		rec.Observed = strs(res.entries)
		if res.hasCsv {
			rec.Csv = strs(res.csv)
		}
		recs = append(recs, rec)
		results[pl.name] = res
		o.Count("analyses", 1)
		if strings.HasPrefix(pl.name, "alone-") {
			o.Count("analyses_of_one_class_alone", 1)
			alone[pl.classes[0].ID] = res
		} else if pl.name != "all-natural-layout" {
			o.Count("analyses_in_forced_file_order", 1)
		}

		view, root := "api", ""
		if useCLI {
			view = "apis.json, root spelled " + res.rootKind
			root = "@root=" + res.rootKind
		}
		ms, st := oracle.SpringCheck(pl.classes, res.entries, view+", "+pl.name+", walk order "+strings.Join(baseNames(order), " < "), true)
		o.Count("handlers_planted", st.HandlersPlanted)
		o.Count("handlers_matched", st.HandlersMatched)
		o.Count("handlers_uri_asserted", st.UriAsserted)
		o.Count("handlers_verb_asserted", st.VerbAsserted)
		o.Count("handlers_with_request_body", st.BodyPlanted)
		o.Count("members_that_must_contribute_nothing", st.SilentMembers)
		o.Count("entries_observed", st.EntriesObserved)
		for _, m := range ms {
			o.Violate(m.Sig+root, "%s", m.Msg)
		}
		if res.hasCsv {
			ms2, st2 := oracle.SpringCheck(pl.classes, res.csv, "api.csv, root spelled "+res.rootKind+", "+pl.name, false)
			o.Count("csv_rows_observed", st2.EntriesObserved)
			o.Count("csv_handlers_matched", st2.HandlersMatched)
			for _, m := range ms2 {
				o.Violate("csv:"+m.Sig+root, "%s", m.Msg)
			}
		}
	}
	witness["analyses"] = recs

	// ---- independence: the entries of a class alone vs. in every other analysis that contains it ----
	for _, pl := range plans {
		if strings.HasPrefix(pl.name, "alone-") {
			continue
		}
		res, ok := results[pl.name]
		if !ok {
			continue
		}
		for _, cl := range pl.classes {
			ref, ok := alone[cl.ID]
			if !ok {
				continue
			}
			o.Count("independence_comparisons", 1)
			for _, m := range oracle.SpringCheckIndependence(cl, ref.entries, res.entries, pl.name) {
				o.Violate(m.Sig, "%s", m.Msg)
			}
		}
	}

	if c.Index < 64 {
		smp := map[string]interface{}{"planted_handlers": plantedDesc, "analyses": recs}
		if len(ctls) > 0 && len(ctls[0].Text) < 4000 {
			smp["first_controller_text"] = ctls[0].Text
		}
		o.Sample = smp
	}
}

func baseNames(paths []string) []string {
	var out []string
	for _, p := range paths {
		out = append(out, strings.TrimSuffix(filepath.Base(p), ".java"))
	}
	return out
}
