// Package c03 drives coca's call-graph generation and checks it against the call relation of the model.
package c03

import (
	"fmt"
	"io/ioutil"
	"path/filepath"
	"strconv"
	"strings"
	"time"

	"github.com/modernizing/coca/pkg/application/call"
	"github.com/modernizing/coca/pkg/domain/api_domain"

	"verifharness/adapter/common"
	"verifharness/gen/modelgen"
	"verifharness/obs"
	"verifharness/oracle"
	"verifharness/run"
)

func cases(tier string) int {
	if tier == "thorough" {
		return 400000
	}
	return 30000
}

func cliEvery(tier string) int {
	if tier == "thorough" {
		return 400 // 1000 CLI cases
	}
	return 500 // 60 CLI cases
}

var Check = &run.Check{
	ID:    "C03",
	Level: "exploration",
	Rule: "case = synthetic code model (1-40 methods over 1-8 classes; modes random/dag/tree/chain/cycle/fan-in/small-tree/mutual/dense, " +
		"sprinkled self-loops, parallel edges, unresolved and external callees, names with quotes, non-ASCII letters and identifier-ignorable format characters; classes recorded as Class / Interface (default methods have bodies) / unrecorded) + root (hub/any/leaf/absent) + lookup flag, or an API list + DI map; " +
		"executed through call.CallGraph.Analysis / AnalysisByFiles in-process and through `coca call` / `coca api -c` for every Nth case; " +
		"non-trivial = root has >= 2 resolved callees and the reachable relation has a cycle or a shared callee; distinct = hash of (mode, adjacency structure, root index, lookup, api/di shape)",
	Assumptions: []string{
		"every method full name is declared once (overloads share a name and are out of scope, DESIGN §7)",
		"names contain no backslash (DOT has no portable escape; the quantifier names quotes)",
		"'fits in the budget' is decided at <= 6 expansions (documented bound); the expansion count is observed as lines-per-caller / out-degree",
	},
	Cases: cases,
	Floor: func(tier string) int {
		if tier == "thorough" {
			return 5000
		}
		return 300
	},
	Run:                 runCase,
	CaseWatchdog:        30 * time.Second, // a case takes milliseconds
	WatchdogIsViolation: true,             // termination clause of the statement
}

func hasCycleOrShare(cr *oracle.CallRel, root string) bool {
	reach := cr.Reachable(root)
	indeg := map[string]int{}
	for f := range reach {
		seen := map[string]bool{}
		for _, c := range cr.Calls[f] {
			if !seen[c] {
				seen[c] = true
				indeg[c]++
			}
		}
	}
	for _, d := range indeg {
		if d >= 2 {
			return true
		}
	}
	// cycle: root reachable from one of its descendants / any back edge
	color := map[string]int{}
	var dfs func(f string) bool
	dfs = func(f string) bool {
		color[f] = 1
		for _, c := range cr.Calls[f] {
			if color[c] == 1 {
				return true
			}
			if color[c] == 0 && dfs(c) {
				return true
			}
		}
		color[f] = 2
		return false
	}
	return dfs(root)
}

func distinctCount(xs []string) int {
	s := map[string]bool{}
	for _, x := range xs {
		s[x] = true
	}
	return len(s)
}

func checkDot(o *run.Outcome, what, dot string) ([]obs.Edge, bool) {
	edges, err := obs.ParseEdgeListDot(dot)
	if err != nil {
		o.Violate("dot-malformed", "%s is not well-formed DOT: %v", what, err)
		return nil, false
	}
	if err := common.GraphvizParses(dot); err != nil {
		o.Violate("dot-malformed-gographviz", "%s is rejected by the DOT parser: %v", what, err)
		return edges, false
	}
	return edges, true
}

func runCase(c *run.Ctx, o *run.Outcome) {
	r := c.Rng
	m := modelgen.Generate(r.Fork(), modelgen.Opts{MaxClasses: 8, MaxMethods: 40, MaxOut: 6, Quotes: true, DefaultPkg: true, Kinds: true, OddRunes: true, CaseTwins: true, Ctors: true, PlatformLikePkgs: true})
	if r.Chance(1, 2) {
		// half of the cases are small, so that trees that fit the budget are well represented
		m = modelgen.Generate(r.Fork(), modelgen.Opts{MaxClasses: 4, MaxMethods: 9, MaxOut: 3, Quotes: true, DefaultPkg: true, Kinds: true, OddRunes: true, CaseTwins: true, Ctors: true, PlatformLikePkgs: true})
	}
	deps := common.ToCoca(m)
	o.Count("methods", len(m.Methods()))
	useCLI := c.CocaBin != "" && c.Index%cliEvery(c.Tier) == 0
	if r.Chance(1, 4) {
		apiCase(c, o, m, useCLI)
		return
	}
	root := modelgen.PickRoot(r, m)
	lookup := r.Chance(1, 4)
	cr := oracle.NewCallRel(m, nil)
	o.Shape = run.ShapeHash(m.ShapeKey(), root, lookup)
	o.NonTrivial = distinctCount(cr.Calls[root]) >= 2 && hasCycleOrShare(cr, root)
	need := cr.Expansions(root, oracle.DocumentedBudget)
	if need <= oracle.DocumentedBudget && need > 0 {
		o.Count("roots_whose_tree_fits_budget", 1)
	}
	if need > oracle.DocumentedBudget {
		o.Count("roots_exceeding_budget", 1)
	}
	if !cr.Declared[root] {
		o.Count("roots_absent", 1)
	} else if len(cr.Calls[root]) == 0 {
		o.Count("roots_leaf", 1)
	}
	witness := map[string]interface{}{"model": m.Describe(), "root": root, "lookup": lookup, "shape": m.Shape}
	o.Witness = witness
	o.Seen("graph_modes", m.Shape)

	var dot string
	if useCLI {
		o.Count("cli_cases", 1)
		dir := c.Scratch()
		common.WriteJSON(filepath.Join(dir, "deps.json"), deps)
		args := []string{"call", "-c", root, "-d", "deps.json"}
		if lookup {
			args = append(args, "-l")
		}
		res := common.RunCLI(c.CocaBin, dir, nil, args...)
		if res.TimedOut {
			o.SetInconclusive("cli watchdog")
			return
		}
		if res.ExitCode != 0 || strings.Contains(res.Stderr, "panic:") {
			o.Violate("cli-crash", "`coca call` exit %d: %s", res.ExitCode, firstLine(res.Stderr))
			return
		}
		b, err := ioutil.ReadFile(filepath.Join(dir, "coca_reporter", "call.dot"))
		if err != nil {
			o.Violate("cli-no-output", "`coca call` wrote no call.dot: %v", err)
			return
		}
		dot = string(b)
	} else {
		panicked, val, site := run.Guard(func() { dot = call.NewCallGraph().Analysis(root, deps, lookup) })
		if panicked {
			o.Violate("panic@"+site, "CallGraph.Analysis panicked: %s", val)
			return
		}
	}
	witness["dot"] = dot
	edges, ok := checkDot(o, "call graph", dot)
	if !ok {
		return
	}
	o.Count("edges_observed", len(edges))
	var extra map[obs.Edge]bool
	if lookup {
		extra = oracle.RPermitted(oracle.RCallMap(m), root)
	}
	ms := cr.CheckCallEdges(root, edges, extra)
	for _, mm := range ms {
		o.Violate(mm.Sig, "%s", mm.Msg)
	}
	o.Count("edges_matched", len(edges))
	o.Count("reachable_edges_expected", len(cr.ReachableEdges(root)))
	if c.Index < 64 {
		o.Sample = map[string]interface{}{"model": m.Describe(), "root": root, "lookup": lookup, "edges_observed": len(edges), "expansions_needed_capped": need}
	}
}

func firstLine(s string) string {
	s = strings.TrimSpace(s)
	if i := strings.Index(s, "\n"); i > 0 {
		s = s[:i]
	}
	if len(s) > 300 {
		s = s[:300]
	}
	return s
}

func apiCase(c *run.Ctx, o *run.Outcome, m *modelgen.Model, useCLI bool) {
	r := c.Rng
	deps := common.ToCoca(m)
	all := m.Methods()
	// DI map: 0-3 classes replaced by another class (the replacement may or may not declare the method)
	di := map[string]string{}
	if !useCLI {
		for k := r.Range(0, 3); k > 0; k-- {
			a := m.Classes[r.Intn(len(m.Classes))]
			b := m.Classes[r.Intn(len(m.Classes))]
			if a != b {
				di[a.Pkg+"."+a.Name] = b.Pkg + "." + b.Name
			}
		}
	}
	nAPI := r.Range(0, 6)
	var apis []api_domain.RestAPI
	verbs := []string{"GET", "POST", "PUT", "DELETE"}
	for i := 0; i < nAPI; i++ {
		me := all[r.Intn(len(all))]
		if i < 2 && r.Bool() {
			me = all[0]
		}
		api := api_domain.RestAPI{HttpMethod: r.Pick(verbs), Uri: "/" + r.Pick([]string{"a", "orders", "u/{id}", "x/y"}) + strconv.Itoa(i),
			PackageName: me.Pkg, ClassName: me.Class, MethodName: me.Name}
		if r.Chance(1, 10) {
			api.MethodName = "absentHandler"
		}
		apis = append(apis, api)
	}
	cr := oracle.NewCallRel(m, di)
	o.Shape = run.ShapeHash(m.ShapeKey(), "api", len(apis), len(di))
	witness := map[string]interface{}{"model": m.Describe(), "apis": apis, "di": di, "shape": m.Shape}
	o.Witness = witness
	o.Count("api_cases", 1)
	o.Count("apis", len(apis))
	o.Count("di_entries", len(di))

	var dot string
	type row struct {
		Size   int
		Method string
		URI    string
		Caller string
	}
	var rows []row
	if useCLI {
		o.Count("cli_cases", 1)
		dir := c.Scratch()
		common.WriteJSON(filepath.Join(dir, "coca_reporter", "deps.json"), deps)
		common.WriteJSON(filepath.Join(dir, "coca_reporter", "identify.json"), deps)
		common.WriteJSON(filepath.Join(dir, "coca_reporter", "apis.json"), apis)
		res := common.RunCLI(c.CocaBin, dir, nil, "api", "-c")
		if res.TimedOut {
			o.SetInconclusive("cli watchdog")
			return
		}
		if res.ExitCode != 0 || strings.Contains(res.Stderr, "panic:") {
			o.Violate("cli-crash", "`coca api -c` exit %d: %s", res.ExitCode, firstLine(res.Stderr))
			return
		}
		b, err := ioutil.ReadFile(filepath.Join(dir, "coca_reporter", "api.dot"))
		if err != nil {
			o.Violate("cli-no-output", "`coca api` wrote no api.dot: %v", err)
			return
		}
		dot = string(b)
		// Size column from api.csv (Size,Method,URI,Caller)
		csvb, _ := ioutil.ReadFile(filepath.Join(dir, "coca_reporter", "api.csv"))
		for i, line := range strings.Split(strings.TrimSpace(string(csvb)), "\n") {
			if i == 0 || strings.TrimSpace(line) == "" {
				continue
			}
			cells := strings.Split(line, ",")
			if len(cells) < 4 {
				continue
			}
			n, _ := strconv.Atoi(strings.TrimSpace(cells[0]))
			rows = append(rows, row{n, strings.TrimSpace(cells[1]), strings.TrimSpace(cells[2]), strings.TrimSpace(cells[3])})
		}
		witness["stdout"] = res.Stdout
	} else {
		var counts []api_domain.CallAPI
		panicked, val, site := run.Guard(func() { dot, counts = call.NewCallGraph().AnalysisByFiles(apis, deps, di) })
		if panicked {
			o.Violate("panic@"+site, "CallGraph.AnalysisByFiles panicked: %s", val)
			return
		}
		for _, cnt := range counts {
			rows = append(rows, row{cnt.Size, cnt.HTTPMethod, cnt.URI, cnt.Caller})
		}
	}
	witness["dot"] = dot
	edges, ok := checkDot(o, "api graph", dot)
	if !ok {
		return
	}
	o.Count("edges_observed", len(edges))
	// split the edge list per API at the header edges "VERB URI" -> caller
	if len(rows) != len(apis) {
		o.Violate("api-count-rows", "%d APIs given, %d size rows reported", len(apis), len(rows))
		return
	}
	pos := 0
	nontrivial := false
	for i, api := range apis {
		caller := api.PackageName + "." + api.ClassName + "." + api.MethodName
		head := obs.Edge{From: api.HttpMethod + " " + api.Uri, To: caller}
		if pos >= len(edges) || edges[pos] != head {
			o.Violate("api-head-edge", "API %d: expected first edge %q -> %q at edge position %d", i, head.From, head.To, pos)
			return
		}
		pos++
		start := pos
		for pos < len(edges) && !strings.Contains(edges[pos].From, " ") {
			pos++
		}
		chain := edges[start:pos]
		if rows[i].Size != len(chain)+1 {
			o.Violate("api-size", "API %d (%s %s): Size %d reported, its chain has %d edges", i, api.HttpMethod, api.Uri, rows[i].Size, len(chain))
		}
		if rows[i].Method != api.HttpMethod || rows[i].URI != api.Uri || rows[i].Caller != caller {
			o.Violate("api-row-fields", "API %d row is (%s,%s,%s), expected (%s,%s,%s)", i, rows[i].Method, rows[i].URI, rows[i].Caller, api.HttpMethod, api.Uri, caller)
		}
		for _, mm := range cr.CheckCallEdges(caller, chain, nil) {
			o.Violate("api/"+mm.Sig, "API %d: %s", i, mm.Msg)
		}
		if distinctCount(cr.Calls[caller]) >= 2 && hasCycleOrShare(cr, caller) {
			nontrivial = true
		}
		need := cr.Expansions(caller, oracle.DocumentedBudget)
		if need > 0 && need <= oracle.DocumentedBudget {
			o.Count("roots_whose_tree_fits_budget", 1)
		} else if need > oracle.DocumentedBudget {
			o.Count("roots_exceeding_budget", 1)
		}
	}
	if pos != len(edges) {
		o.Violate("api-trailing-edges", "%d edges after the last API chain", len(edges)-pos)
	}
	o.NonTrivial = nontrivial && len(apis) >= 2
	o.Count("edges_matched", len(edges))
	if c.Index < 64 {
		o.Sample = map[string]interface{}{"model": m.Describe(), "apis": fmt.Sprint(apis), "di": di, "edges_observed": len(edges)}
	}
}
