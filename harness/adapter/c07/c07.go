// Package c07 checks metamorphic relations over pairs of executions in one process: a file's result must not depend
// on which other files are analysed, in which order, or how often; a graph generated twice must be the same graph.
package c07

import (
	"encoding/json"
	"fmt"
	"io/ioutil"
	"os"
	"path/filepath"
	"regexp"
	"sort"
	"strings"
	"verifharness/gen/javawide"

	"github.com/modernizing/coca/pkg/application/analysis/javaapp"
	"github.com/modernizing/coca/pkg/application/api"
	"github.com/modernizing/coca/pkg/application/bs"
	"github.com/modernizing/coca/pkg/application/call"
	"github.com/modernizing/coca/pkg/application/rcall"
	"github.com/modernizing/coca/pkg/domain/api_domain"
	"github.com/modernizing/coca/pkg/domain/bs_domain"
	"github.com/modernizing/coca/pkg/domain/core_domain"

	"verifharness/adapter/common"
	"verifharness/gen/javagen"
	"verifharness/gen/modelgen"
	"verifharness/obs"
	"verifharness/run"
)

func cases(tier string) int {
	if tier == "thorough" {
		return 6000
	}
	return 480
}

var Check = &run.Check{
	ID:    "C07",
	Level: "exploration",
	Rule: "3 of 4 cases: a generated Java project (2-7 files; the same variable names with different types in different files and methods, inherited receivers, suffix-colliding imports, same simple class name in two packages, " +
		"Spring controllers with and without a class-level mapping (some extending one another) next to non-controllers, interfaces/abstract members carrying @Override) plus, in half of the cases, one file of C09's wide generator (enums with constant bodies, records, annotation types, nested/anonymous classes, initialisers) in a package of its own) analysed several times IN ONE PROCESS: " +
		"R1 permuted file lists (identifier pass, full pass) / the same sources under directory names that sort differently (bad-smell pass, API pass; results compared through the path bijection), " +
		"R2 sub- and supersets with the identifier set held fixed, R3 the same call repeated 2-3 times; per-file slices must be identical (functions inside a type compared as a set). " +
		"1 of 4 cases: R4 a call graph / reverse call graph generated for model A (classes extending one another in chains of up to 5, inherited methods called through subclass receivers), again for A, and again after a different model B: the three edge sets for A must be equal. " +
		"non-trivial = project cases with >= 3 files of which >= 1 reuses a variable name with another type or is a controller / graph cases whose first graph exhausts the expansion budget; distinct = hash of (file kinds, permutation, subset mask) or of the two graph shapes",
	Assumptions: []string{
		"relations are equalities between executions of the real code; no reference result is needed, so nothing beyond the statement is demanded",
		"the identifier set handed to the full pass and the API pass is computed once and held fixed, as the statement says",
		"order of functions inside a type is free (C08)",
	},
	Cases: cases,
	Floor: func(tier string) int {
		if tier == "thorough" {
			return 400
		}
		return 25
	},
	Run: runCase,
}

var opts = javagen.Opts{AnonClasses: true, AccessorNames: true, ExoticNames: true, MinFiles: 2, MaxFiles: 6, MaxMethods: 5, MaxParams: 3, MaxFields: 4, Interfaces: true, Generics: true, Annotations: true, Ctors: true,
	Bodies: true, MaxStmts: 6, MaxSites: 18, Shadowing: true, SuffixImports: true, SameNameTwoPkgs: true, Lambdas: true}

type srcFile struct {
	ID   string // stable identity across directory variants
	Name string // file name
	Text string
	Kind string
}

func controller(r *run.Rand, i int, name string, earlier []string) srcFile {
	var sb strings.Builder
	sb.WriteString("package com.acme.web;\n\nimport org.springframework.web.bind.annotation.*;\n\n")
	isCtl := r.Chance(4, 5)
	base := r.Chance(1, 2)
	if isCtl {
		sb.WriteString(r.Pick([]string{"@RestController", "@Controller"}) + "\n")
	} else {
		sb.WriteString("@Service\n")
	}
	if base {
		// some controllers share one base path
		sb.WriteString(fmt.Sprintf("@RequestMapping(\"/base%d\")\n", i%2))
	}
	sb.WriteString("public class " + name)
	if len(earlier) > 0 && r.Chance(1, 2) {
		// controller inheritance: the parent may carry the class-level mapping, the child none (or the other way round)
		sb.WriteString(" extends " + r.Pick(earlier))
	}
	sb.WriteString(" {\n")
	if r.Bool() {
		sb.WriteString("    public void helper" + fmt.Sprint(i) + "() { }\n")
	}
	for k := r.Range(1, 3); k > 0; k-- {
		verb := r.Pick([]string{"GetMapping", "PostMapping", "PutMapping", "DeleteMapping"})
		sb.WriteString(fmt.Sprintf("    @%s(\"/m%d_%d\")\n    public String handle%d_%d(", verb, i, k, i, k))
		if r.Bool() {
			sb.WriteString("@RequestBody Order" + fmt.Sprint(i) + " body")
		}
		sb.WriteString(") { return null; }\n")
	}
	if r.Chance(2, 3) {
		// the same verb and URI as in other controllers of the project (a health endpoint, a profile-specific stub):
		// entries of different classes may coincide in everything but the class
		uri := "/health"
		if base {
			uri = "/status"
		}
		sb.WriteString(fmt.Sprintf("    @GetMapping(\"%s\")\n    public String health() { return \"ok\"; }\n", uri))
	}
	sb.WriteString("}\n")
	kind := "non-controller-with-mappings"
	if isCtl && base {
		kind = "controller-with-class-mapping"
	} else if isCtl {
		kind = "controller-without-class-mapping"
	}
	return srcFile{ID: name, Name: name + ".java", Text: sb.String(), Kind: kind}
}

func marshal(v interface{}) string {
	b, _ := json.Marshal(v)
	return string(b)
}

func canonDS(d core_domain.CodeDataStruct, id string) string {
	d.FilePath = id
	return marshal(sortFunctions(d))
}

// sortFunctions: the order of functions inside a type is free (C08), also inside nested and anonymous types.
func sortFunctions(d core_domain.CodeDataStruct) core_domain.CodeDataStruct {
	fs := append([]core_domain.CodeFunction(nil), d.Functions...)
	for i := range fs {
		if len(fs[i].InnerStructures) > 0 {
			in := append([]core_domain.CodeDataStruct(nil), fs[i].InnerStructures...)
			for k := range in {
				in[k] = sortFunctions(in[k])
			}
			fs[i].InnerStructures = in
		}
	}
	sort.SliceStable(fs, func(i, j int) bool {
		a, b := fs[i], fs[j]
		if a.Name != b.Name {
			return a.Name < b.Name
		}
		if a.Position.StartLine != b.Position.StartLine {
			return a.Position.StartLine < b.Position.StartLine
		}
		if a.Position.StartLinePosition != b.Position.StartLinePosition {
			return a.Position.StartLinePosition < b.Position.StartLinePosition
		}
		return marshal(a) < marshal(b)
	})
	d.Functions = fs
	if len(d.InnerStructures) > 0 {
		in := append([]core_domain.CodeDataStruct(nil), d.InnerStructures...)
		for k := range in {
			in[k] = sortFunctions(in[k])
		}
		d.InnerStructures = in
	}
	return d
}

// materialise writes the files under dir; file i goes into sub-directory order[i] (so that the directory walk visits
// the files in another order) and returns path -> file id.
func materialise(dir string, files []srcFile, order []int, mask []bool) (map[string]string, []string) {
	os.RemoveAll(dir)
	byPath := map[string]string{}
	var paths []string
	for i, f := range files {
		if mask != nil && !mask[i] {
			continue
		}
		p := filepath.Join(dir, fmt.Sprintf("s%02d", order[i]), f.Name)
		os.MkdirAll(filepath.Dir(p), 0o755)
		ioutil.WriteFile(p, []byte(f.Text), 0o644)
		byPath[p] = f.ID
		paths = append(paths, p)
	}
	return byPath, paths
}

type slices map[string]string // file id -> canonical result

func diff(o *run.Outcome, pass, relation string, base, other slices, kinds map[string]string) {
	for id, b := range other {
		a, ok := base[id]
		if !ok {
			continue
		}
		if a != b {
			o.Violate(relation+"/"+pass, "%s: the result for file %s (%s) differs between two executions in one process: %s", pass, id, kinds[id], firstDiff(a, b))
			return
		}
	}
}

func firstDiff(a, b string) string {
	k := 0
	for k < len(a) && k < len(b) && a[k] == b[k] {
		k++
	}
	from := k - 120
	if from < 0 {
		from = 0
	}
	end := func(s string) string {
		e := k + 160
		if e > len(s) {
			e = len(s)
		}
		return s[from:e]
	}
	return fmt.Sprintf("…%s… vs …%s…", end(a), end(b))
}

func runCase(c *run.Ctx, o *run.Outcome) {
	if c.Index%4 == 3 {
		graphCase(c, o)
		return
	}
	r := c.Rng
	p := javagen.Generate(r.Fork(), opts)
	var files []srcFile
	kinds := map[string]string{}
	reuse := false
	for i, f := range p.Files {
		if f.Type == nil || f.Role != javagen.RoleMain {
			continue
		}
		if ne, first := common.JavaSyntaxErrors(f.Text); ne > 0 {
			o.SetInconclusive("generated file rejected by coca's Java parser: " + first)
			return
		}
		id := fmt.Sprintf("f%d:%s.%s", i, f.Pkg, f.Type.Name)
		files = append(files, srcFile{ID: id, Name: f.Type.Name + ".java", Text: f.Text, Kind: f.Type.Kind})
	}
	nCtl := r.Range(0, 3)
	// one "unusual" file from the wide generator of C09 (enums with constant bodies, records, annotation types, nested and
	// anonymous classes, initialisers, ...) in a package of its own: no reference result is needed for the relations
	if r.Chance(1, 2) {
		wf := javawide.Handwritten(r.Fork())
		if ne, _ := common.JavaSyntaxErrors(wf.Text); ne == 0 {
			wpk := ""
			if m := regexp.MustCompile(`(?m)^\s*(?:@[^\n]*\n\s*)?package\s+([^;]+);`).FindStringSubmatch(wf.Text); m != nil {
				wpk = strings.TrimSpace(m[1])
			}
			clash := wpk == "com.acme.web"
			for _, f := range p.Files {
				if f.Pkg == wpk {
					clash = true
				}
			}
			if !clash {
				files = append(files, srcFile{ID: "wide:" + wpk, Name: "WideUnit.java", Text: wf.Text, Kind: "wide-generator-file"})
				o.Count("wide_generator_files", 1)
				for fam := range wf.Families {
					o.Seen("wide_construct_families", fam)
				}
			}
		}
	}
	// controller names first: a controller may extend one that sorts (and is walked) before it, or, in other cases, after it
	var ctlNames []string
	for i := 0; i < nCtl; i++ {
		ctlNames = append(ctlNames, fmt.Sprintf("Ctl%d%s", i, r.Pick([]string{"Controller", "Resource", "Api"})))
	}
	extendLater := r.Bool()
	for i := 0; i < nCtl; i++ {
		parents := ctlNames[:i]
		if extendLater {
			parents = ctlNames[i+1:]
		}
		files = append(files, controller(r, i, ctlNames[i], parents))
	}
	for _, f := range files {
		kinds[f.ID] = f.Kind
	}
	// name reuse with different types across files: look at variable names in the abstract project
	types := map[string]map[string]bool{}
	for _, f := range p.Files {
		if f.Type == nil {
			continue
		}
		for _, fl := range f.Type.Fields() {
			if types[fl.Name] == nil {
				types[fl.Name] = map[string]bool{}
			}
			types[fl.Name][fl.Type] = true
		}
		for _, m := range f.Type.Methods() {
			for _, pa := range m.Params {
				if types[pa.Name] == nil {
					types[pa.Name] = map[string]bool{}
				}
				types[pa.Name][pa.Type] = true
			}
		}
	}
	for _, ts := range types {
		if len(ts) >= 2 {
			reuse = true
		}
	}
	n := len(files)
	perm := r.Perm(n)
	mask := make([]bool, n)
	kept := 0
	for i := range mask {
		mask[i] = r.Chance(2, 3)
		if mask[i] {
			kept++
		}
	}
	if kept == 0 {
		mask[r.Intn(n)] = true
	}
	var kindList []string
	for _, f := range files {
		kindList = append(kindList, f.Kind)
	}
	o.Shape = run.ShapeHash(strings.Join(kindList, ","), fmt.Sprint(perm), fmt.Sprint(mask))
	o.NonTrivial = n >= 3 && (reuse || nCtl > 0)
	o.Count("project_cases", 1)
	o.Count("files", n)
	o.Count("controllers", nCtl)
	texts := map[string]string{}
	for _, f := range files {
		texts[f.ID] = f.Text
	}
	o.Witness = map[string]interface{}{"files": texts, "permutation": perm, "subset": mask}

	identity := make([]int, n)
	for i := range identity {
		identity[i] = i
	}
	dirA := filepath.Join(c.Scratch(), "a")
	dirB := filepath.Join(c.Scratch(), "b")
	dirC := filepath.Join(c.Scratch(), "c")
	idA, pathsA := materialise(dirA, files, identity, nil)
	idB, _ := materialise(dirB, files, perm, nil)
	idC, _ := materialise(dirC, files, identity, mask)

	var violated bool
	guard := func(what string, f func()) bool {
		panicked, val, site := run.Guard(f)
		if panicked {
			// a crash is C09's business unless it only happens on a repetition
			o.SetInconclusive("analysis panicked (" + what + " @" + site + "): " + val)
			violated = true
		}
		return !panicked
	}

	// ---- identifier pass (file lists)
	identRun := func(paths []string) (slices, []core_domain.CodeDataStruct) {
		ia := javaapp.NewJavaIdentifierApp()
		ds := ia.AnalysisFiles(paths)
		out := slices{}
		for _, d := range ds {
			out[d.Package+"."+d.NodeName] += canonDS(d, "") + "\n"
		}
		return out, ds
	}
	var identBase slices
	var idents []core_domain.CodeDataStruct
	if !guard("identifier pass", func() { identBase, idents = identRun(pathsA) }) {
		return
	}
	permPaths := make([]string, n)
	for i, j := range perm {
		permPaths[i] = pathsA[j]
	}
	var subPaths []string
	for i, keep := range mask {
		if keep {
			subPaths = append(subPaths, pathsA[i])
		}
	}
	var s2 slices
	if guard("identifier pass, permuted", func() { s2, _ = identRun(permPaths) }) {
		diff(o, "identifier-pass", "order-dependence", identBase, s2, map[string]string{})
		o.Count("relations_checked", 1)
	}
	if guard("identifier pass, subset", func() { s2, _ = identRun(subPaths) }) {
		diff(o, "identifier-pass", "subset-dependence", identBase, s2, map[string]string{})
		o.Count("relations_checked", 1)
	}
	if guard("identifier pass, repeated", func() { s2, _ = identRun(pathsA) }) {
		diff(o, "identifier-pass", "repetition-dependence", identBase, s2, map[string]string{})
		o.Count("relations_checked", 1)
	}
	if violated {
		return
	}

	// ---- full pass (file lists, identifier set fixed)
	fullRun := func(paths []string) slices {
		fa := javaapp.NewJavaFullApp()
		ds := fa.AnalysisFiles(idents, paths)
		out := slices{}
		for _, d := range ds {
			out[idA[d.FilePath]] += canonDS(d, idA[d.FilePath]) + "\n"
		}
		return out
	}
	var fullBase slices
	var deps []core_domain.CodeDataStruct
	if !guard("full pass", func() {
		fullBase = fullRun(pathsA)
		fa := javaapp.NewJavaFullApp()
		deps = fa.AnalysisFiles(idents, pathsA)
	}) {
		return
	}
	if guard("full pass, permuted", func() { s2 = fullRun(permPaths) }) {
		diff(o, "full-pass", "order-dependence", fullBase, s2, kinds)
		o.Count("relations_checked", 1)
	}
	if guard("full pass, subset", func() { s2 = fullRun(subPaths) }) {
		diff(o, "full-pass", "subset-dependence", fullBase, s2, kinds)
		o.Count("relations_checked", 1)
	}
	if guard("full pass, repeated", func() { s2 = fullRun(pathsA) }) {
		diff(o, "full-pass", "repetition-dependence", fullBase, s2, kinds)
		o.Count("relations_checked", 1)
	}

	// ---- bad-smell pass (directory driven)
	bsRun := func(dir string, ids map[string]string) slices {
		app := bs.NewBadSmellApp()
		nodes := app.AnalysisPath(dir)
		out := slices{}
		copyNodes := append([]bs_domain.BSDataStruct(nil), (*nodes)...)
		for _, nd := range copyNodes {
			id := ids[nd.FilePath]
			nd.FilePath = id
			nd.CodeDataStruct.FilePath = id
			out[id] += marshal(nd) + "\n"
		}
		findings := app.IdentifyBadSmell(&copyNodes, nil)
		sort.SliceStable(findings, func(i, j int) bool { return marshal(findings[i]) < marshal(findings[j]) })
		for _, f := range findings {
			id := ids[f.File]
			if id == "" {
				continue // project-level findings (no file) are not a file's entry
			}
			f.File = id
			out[id] += "finding " + marshal(f) + "\n"
		}
		return out
	}
	var bsBase, bsPre slices
	switch pre := (c.Index / 4) % 3; pre {
	case 1:
		guard("bad-smell pass, subset first", func() { bsPre = bsRun(dirC, idC) })
	case 2:
		guard("bad-smell pass, other directory order first", func() { bsPre = bsRun(dirB, idB) })
	}
	if guard("bad-smell pass", func() { bsBase = bsRun(dirA, idA) }) {
		if bsPre != nil {
			diff(o, "bad-smell-pass", "dependence-on-run-before-base", bsBase, bsPre, kinds)
			o.Count("relations_checked", 1)
			o.Count("relations_checked_with_variant_run_first", 1)
		}
		if guard("bad-smell pass, other directory order", func() { s2 = bsRun(dirB, idB) }) {
			diff(o, "bad-smell-pass", "order-dependence", bsBase, s2, kinds)
			o.Count("relations_checked", 1)
		}
		if guard("bad-smell pass, subset", func() { s2 = bsRun(dirC, idC) }) {
			diff(o, "bad-smell-pass", "subset-dependence", bsBase, s2, kinds)
			o.Count("relations_checked", 1)
		}
		if guard("bad-smell pass, repeated", func() { s2 = bsRun(dirA, idA) }) {
			diff(o, "bad-smell-pass", "repetition-dependence", bsBase, s2, kinds)
			o.Count("relations_checked", 1)
		}
	}

	// ---- API pass (directory driven; identifier set and model fixed)
	identMap := core_domain.BuildIdentifierMap(idents)
	apiRun := func(dir string) slices {
		app := new(api.JavaApiApp)
		apis := app.AnalysisPath(dir, deps, identMap, map[string]string{})
		out := slices{}
		sorted := append([]api_domain.RestAPI(nil), apis...)
		sort.SliceStable(sorted, func(i, j int) bool { return marshal(sorted[i]) < marshal(sorted[j]) })
		for _, a := range sorted {
			out[a.ClassName] += marshal(a) + "\n"
		}
		// a class without entries has the empty slice
		for _, f := range files {
			if _, ok := out[f.ID]; !ok && strings.HasPrefix(f.ID, "Ctl") {
				out[f.ID] = ""
			}
		}
		return out
	}
	var apiBase slices
	// which execution comes first matters for state that is filled once and kept: in 2 of 3 cases the subset or the
	// other directory order is analysed BEFORE the base run
	var apiPre slices
	pre := (c.Index / 4) % 3
	switch pre {
	case 1:
		guard("API pass, subset first", func() {
			apiPre = apiRun(dirC)
			for i, f := range files {
				if !mask[i] {
					delete(apiPre, f.ID)
				}
			}
		})
	case 2:
		guard("API pass, other directory order first", func() { apiPre = apiRun(dirB) })
	}
	if guard("API pass", func() { apiBase = apiRun(dirA) }) {
		if apiPre != nil {
			diff(o, "api-pass", []string{"", "subset-dependence", "order-dependence"}[pre]+"(run-before-base)", apiBase, apiPre, kinds)
			o.Count("relations_checked", 1)
			o.Count("relations_checked_with_variant_run_first", 1)
		}
		if guard("API pass, other directory order", func() { s2 = apiRun(dirB) }) {
			diff(o, "api-pass", "order-dependence", apiBase, s2, kinds)
			o.Count("relations_checked", 1)
		}
		if guard("API pass, subset", func() {
			s2 = apiRun(dirC)
			// files that are not part of the subset have no slice there
			for i, f := range files {
				if !mask[i] {
					delete(s2, f.ID)
				}
			}
		}) {
			diff(o, "api-pass", "subset-dependence", apiBase, s2, kinds)
			o.Count("relations_checked", 1)
		}
		if guard("API pass, repeated", func() { s2 = apiRun(dirA) }) {
			diff(o, "api-pass", "repetition-dependence", apiBase, s2, kinds)
			o.Count("relations_checked", 1)
		}
	}
	if c.Index < 64 {
		o.Sample = map[string]interface{}{"files": kindList, "permutation": perm, "subset": mask, "relations": "order/subset/repetition x identifier, full, bad-smell, API pass"}
	}
}

func edgeKey(dot string) (string, error) {
	es, err := obs.ParseEdgeListDot(dot)
	if err != nil {
		return "", err
	}
	set := map[string]bool{}
	for _, e := range es {
		set[e.From+" -> "+e.To] = true
	}
	var ks []string
	for k := range set {
		ks = append(ks, k)
	}
	sort.Strings(ks)
	return strings.Join(ks, "\n"), nil
}

func graphCase(c *run.Ctx, o *run.Outcome) {
	r := c.Rng
	mA := modelgen.Generate(r.Fork(), modelgen.Opts{MaxClasses: 5, MaxMethods: 14, MaxOut: 4, Inheritance: true, Kinds: true, DefaultPkg: true, CallerPkgReceivers: true})
	mB := modelgen.Generate(r.Fork(), modelgen.Opts{MaxClasses: 5, MaxMethods: 25, MaxOut: 5, Inheritance: true, Kinds: true})
	rootA := modelgen.PickRoot(r, mA)
	rootB := modelgen.PickRoot(r, mB)
	lookup := r.Chance(1, 3)
	dA, dB := common.ToCoca(mA), common.ToCoca(mB)
	o.Count("graph_cases", 1)
	o.Shape = run.ShapeHash(mA.ShapeKey(), mB.ShapeKey(), rootA, rootB, lookup)
	o.NonTrivial = len(mB.Methods()) >= 8 && len(mA.Methods()) >= 3
	o.Witness = map[string]interface{}{"modelA": mA.Describe(), "rootA": rootA, "modelB": mB.Describe(), "rootB": rootB, "lookup": lookup}
	var a1, a2, a3, r1, r2, r3 string
	panicked, val, site := run.Guard(func() {
		cg := call.NewCallGraph()
		rg := rcall.NewRCallGraph()
		nop := func(map[string][]string) {}
		a1 = cg.Analysis(rootA, dA, lookup)
		r1 = rg.Analysis(rootA, dA, nop)
		a2 = cg.Analysis(rootA, dA, lookup)
		r2 = rg.Analysis(rootA, dA, nop)
		cg.Analysis(rootB, dB, lookup)
		rg.Analysis(rootB, dB, nop)
		a3 = cg.Analysis(rootA, dA, lookup)
		r3 = rg.Analysis(rootA, dA, nop)
	})
	if panicked {
		o.SetInconclusive("graph generation panicked (C03/C04's business) @" + site + ": " + val)
		return
	}
	cmp := func(kind, x, y, rel string) {
		kx, e1 := edgeKey(x)
		ky, e2 := edgeKey(y)
		if e1 != nil || e2 != nil {
			o.SetInconclusive("graph is not well-formed DOT (C03/C04's business)")
			return
		}
		o.Count("relations_checked", 1)
		if kx != ky {
			o.Violate(rel+"/"+kind, "%s for root %q generated twice in one process (%s) has different edge sets: %d vs %d characters of edges; first: %s", kind, rootA, rel, len(kx), len(ky), firstDiff(kx, ky))
		}
	}
	cmp("call-graph", a1, a2, "repetition-dependence")
	cmp("call-graph", a1, a3, "dependence-on-earlier-graph")
	cmp("reverse-call-graph", r1, r2, "repetition-dependence")
	cmp("reverse-call-graph", r1, r3, "dependence-on-earlier-graph")
	if c.Index < 64 {
		o.Sample = map[string]interface{}{"modelA": mA.Describe(), "rootA": rootA, "modelB_methods": len(mB.Methods()), "rootB": rootB, "lookup": lookup}
	}
}
