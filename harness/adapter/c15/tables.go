package c15

import (
	"fmt"
	"strings"
)

// parseTable reads the `| a | b |` rows tablewriter prints (left/right borders, `|` separators, a `|---|` rule under
// the header). Generated names contain no `|`. Every row must have exactly cols cells.
func parseTable(out string, cols int) (header []string, rows [][]string, err error) {
	for _, line := range strings.Split(out, "\n") {
		line = strings.TrimRight(line, " \r")
		if !strings.HasPrefix(line, "|") {
			continue
		}
		if strings.HasPrefix(line, "|-") {
			continue
		}
		cells := strings.Split(strings.Trim(line, "|"), "|")
		for i := range cells {
			cells[i] = strings.TrimSpace(cells[i])
		}
		if header == nil {
			header = cells
			continue
		}
		if len(cells) != cols {
			return nil, nil, fmt.Errorf("row %q has %d cells, expected %d", line, len(cells), cols)
		}
		rows = append(rows, cells)
	}
	if header == nil {
		return nil, nil, fmt.Errorf("no table in output %q", clip(out, 200))
	}
	if len(header) != cols {
		return nil, nil, fmt.Errorf("header %q has %d cells, expected %d", header, len(header), cols)
	}
	return header, rows, nil
}

// parseChangelog reads ShowChangeLogSummary's blocks:
//
//	<type> :
//	---------------------
//	<file>, <count>
//	=====================
func parseChangelog(out string) (map[string]map[string]int, error) {
	got := map[string]map[string]int{}
	cur := ""
	in := false
	for _, line := range strings.Split(out, "\n") {
		switch {
		case strings.HasPrefix(line, "====="):
			cur, in = "", false
		case strings.HasPrefix(line, "-----") && cur != "":
			in = true
		case !in && strings.HasSuffix(line, " :"):
			cur = strings.TrimSuffix(line, " :")
			if _, dup := got[cur]; dup {
				return nil, fmt.Errorf("type %q printed twice", cur)
			}
			got[cur] = map[string]int{}
		case in:
			i := strings.LastIndex(line, ", ")
			if i < 0 {
				return nil, fmt.Errorf("line %q inside block %q", line, cur)
			}
			n := atoi(line[i+2:])
			if n < 0 {
				return nil, fmt.Errorf("count in line %q", line)
			}
			if _, dup := got[cur][line[:i]]; dup {
				return nil, fmt.Errorf("file %q printed twice under %q", line[:i], cur)
			}
			got[cur][line[:i]] = n
		}
	}
	return got, nil
}

// parseRenders splits an output that contains several table renders (each: header line, `|---|` rule, rows) into the
// row lists of the renders, cells trimmed. Rows may have different widths (cmd/git.go appends to one table).
func parseRenders(out string) [][][]string {
	type line struct {
		cells []string
		rule  bool
	}
	var ls []line
	for _, l := range strings.Split(out, "\n") {
		l = strings.TrimRight(l, " \r")
		if !strings.HasPrefix(l, "|") {
			continue
		}
		if strings.HasPrefix(l, "|-") {
			ls = append(ls, line{rule: true})
			continue
		}
		cells := strings.Split(strings.Trim(l, "|"), "|")
		for i := range cells {
			cells[i] = strings.TrimSpace(cells[i])
		}
		ls = append(ls, line{cells: cells})
	}
	var renders [][][]string
	for i, l := range ls {
		if !l.rule {
			continue
		}
		var rows [][]string
		for j := i + 1; j < len(ls) && !ls[j].rule; j++ {
			if j+1 < len(ls) && ls[j+1].rule { // the header of the next render
				break
			}
			rows = append(rows, ls[j].cells)
		}
		renders = append(renders, rows)
	}
	return renders
}
