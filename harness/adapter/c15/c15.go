// Package c15 checks coca's git summaries (team summary, code age, top authors, basic summary, changelog map) against a
// reference fold of the same commit list (property C15).
//
// Per case a commit list of the shape coca's parser produces is synthesised (gen/gitgen/synth.go); every 4th case it
// is additionally rendered as `git log --numstat --summary` text and passed through git.BuildMessageByInput, and the
// summaries are computed from what the parser returned (when the parser's result is not the planted list, that is
// property C14's business: the case falls back to the planted list and counts `parser_disagreed`).
// Every Nth case is a CLI case instead: a real repository from gen/gitgen, `coca git -b`, `-t`, `-a`, `-o`, `-m`
// (one flag per run, see Assumptions), and the expectation is folded from coca_reporter/commits.json - the parsed
// history the tables were computed from.
package c15

import (
	"bytes"
	"encoding/json"
	"fmt"
	"io/ioutil"
	"path/filepath"
	"sort"
	"strings"

	cocagit "github.com/modernizing/coca/pkg/application/git"

	"verifharness/adapter/common"
	"verifharness/gen/gitgen"
	"verifharness/oracle"
	"verifharness/run"
)

func cases(tier string) int {
	if tier == "thorough" {
		return 200000
	}
	return 16000
}

func cliEvery(tier string) int {
	if tier == "thorough" {
		return 401 // ~500 CLI cases (odd: spreads over the 16 workers)
	}
	return 401 // ~40 CLI cases
}

var Check = &run.Check{
	ID:    "C15",
	Level: "exploration",
	Rule: "case = synthesised commit list (0-30 commits with >= 1 change each, 1-8 authors, <= 15 created files, create/modify/delete/re-create of a deleted path, rename chains <= 4 per file " +
		"printed in git's own notation: `dir/{a => b}`, `{a => b}/f`, `dir/{ => sub}/f`, `dir/{sub => }/f`, full-path `a => b` (root <-> directory, other directory + new name), for half of the root <-> directory moves the brace form with an empty prefix `{ => d}/f`, `{d => }/f`, renames back to an earlier name; " +
		"in a third of the histories two authors differ only in letter case; every 201st history instead has one file touched by 100-130 distinct authors (one revision each) next to 1-3 files with 1-3 more revisions by one author; " +
		"dates with many ties, non-decreasing except that in a third of the histories about every 6th commit is dated 1-60 days before its predecessor (such a commit only creates files); about every 25th change of an existing file is a second `create` of that path (added on two merged branches); " +
		" conventional and free subjects; order of changes inside a commit shuffled); every 4th case goes through rendered log text + BuildMessageByInput; " +
		"observed = GetTeamSummary, CalculateCodeAge, GetTopAuthors, BasicSummary, BuildChangeMap in-process, each on its own deep copy, then ShowChangeLogSummary + BuildChangeMap followed by the four summaries on ONE shared list (results must equal the fresh-copy results); every Nth case instead a real repository (gen/gitgen) with `coca git -b|-t|-a|-o|-m` tables " +
		"judged against the fold of coca_reporter/commits.json; non-trivial = >= 4 commits, >= 2 authors, >= 1 rename and >= 1 deletion; distinct = hash of the op/notation/author-index/date-step structure (no names)",
	Assumptions: []string{
		"inside one commit a path is touched once, rename sources exist and are not otherwise touched, rename/creation targets do not exist before the commit (the only shapes git prints), so nothing depends on the order of changes inside a commit",
		"'first-commit date' = the date of the first commit in list order that touched the file; a commit dated earlier than its predecessor touches no file that existed before it, so this is also the file's earliest date (the two readings never differ); revs are unique",
		"a second `create` of a path that still exists is one more revision and author of the same file (statement: every file that still exists, all commits and authors that touched it)",
		"team summary / code age: a renamed file keeps its record (authors, revs, first date); ties in revisions / dates may appear in any order",
		"top authors: only the per-author numbers and their sum are asserted, not the order of the list",
		"basic summary: Commits and Authors exact; Entities exact on rename-free histories, otherwise only bounded by [distinct creation paths, distinct path strings]; the 'Changes' figure is not in the statement",
		"changelog map: 'file' = the path the commit leaves the file at (new name for a rename); types are lower-case words, `type(scope)?: text`",
		"author names are compared byte-wise, as git prints them (`Bob` and `bob` are two authors)",
		"`{ => d}/f` / `{d => }/f` (empty common prefix, one empty side) is not printed by git 2.39 for a root <-> directory move (it prints `f => d/f`); it is synthesised as decoder input in its evident reading only",
		"CLI: one flag per run, each section once more with --full --size N (N in 1..3: listings cut to a prefix, the basic summary table never), plus one invocation with -m -b -t -a -o whose re-rendered growing table is split into the rows each render adds (if that layout is not found nothing is judged; table layout is not part of the statement); code-age months are wall-clock dependent, only names and order are judged; `-m` prints at most 10 files per type, which ones is free",
	},
	Cases: cases,
	Floor: func(tier string) int {
		if tier == "thorough" {
			return 8000
		}
		return 300
	},
	Run:        runCase,
	MaxSamples: 3,
}

func toCoca(cs []gitgen.SynthCommit) []cocagit.CommitMessage {
	out := []cocagit.CommitMessage{}
	for _, c := range cs {
		m := cocagit.CommitMessage{Rev: c.Rev, Author: c.Author, Date: c.Date, Message: c.Message}
		for _, ch := range c.Changes {
			m.Changes = append(m.Changes, cocagit.FileChange{Added: ch.Added, Deleted: ch.Deleted, File: ch.File, Mode: ch.Mode})
		}
		out = append(out, m)
	}
	return out
}

func toOracle(ms []cocagit.CommitMessage) []oracle.GitCommit {
	var out []oracle.GitCommit
	for _, m := range ms {
		c := oracle.GitCommit{Rev: m.Rev, Author: m.Author, Date: m.Date, Message: m.Message}
		for _, ch := range m.Changes {
			c.Changes = append(c.Changes, oracle.GitChange{Added: ch.Added, Deleted: ch.Deleted, File: ch.File, Mode: ch.Mode})
		}
		out = append(out, c)
	}
	return out
}

// canon renders a commit list with the changes of each commit sorted (set comparison).
func canon(ms []cocagit.CommitMessage) string {
	var sb strings.Builder
	for _, m := range ms {
		fmt.Fprintf(&sb, "%q %q %q %q", m.Rev, m.Author, m.Date, m.Message)
		var cs []string
		for _, c := range m.Changes {
			cs = append(cs, fmt.Sprintf("%q+%d-%d%q", c.File, c.Added, c.Deleted, c.Mode))
		}
		sort.Strings(cs)
		sb.WriteString(strings.Join(cs, ",") + "\n")
	}
	return sb.String()
}

func runCase(c *run.Ctx, o *run.Outcome) {
	if c.CocaBin != "" && c.Index%cliEvery(c.Tier) == cliEvery(c.Tier)-1 {
		runCLI(c, o)
		return
	}
	r := c.Rng
	hist, st := gitgen.SynthHistory(r.Fork(), gitgen.SynthOpts{MaxCommits: 30 + 30*(c.Index%2), MaxAuthors: 14, MaxFiles: 15, MaxChain: 4, NonMonotoneDates: true, DoubleCreate: true})
	if c.Index%201 == 77 {
		// "any number of commits, authors and files": one file touched by 100-130 distinct authors next to files with
		// 1-3 more revisions by a single author (80 such histories in quick, 1000 in thorough)
		hist = gitgen.SynthCrowd(r.Fork())
		st = gitgen.SynthStats{}
		o.Count("crowd_histories_one_file_100-130_authors", 1)
	}
	msgs := toCoca(hist)
	witness := map[string]interface{}{"history": hist}
	o.Witness = witness

	// shape: structure without names
	var shape []interface{}
	authorIdx := map[string]int{}
	prevDate := ""
	for _, h := range hist {
		if _, ok := authorIdx[h.Author]; !ok {
			authorIdx[h.Author] = len(authorIdx)
		}
		var per []string
		for _, ch := range h.Changes {
			per = append(per, ch.Mode+"/"+gitgen.RenameShape(ch.File))
		}
		sort.Strings(per)
		shape = append(shape, authorIdx[h.Author], h.Date == prevDate, oracle.GitCCType(h.Message), strings.Join(per, ","))
		prevDate = h.Date
	}
	o.Shape = run.ShapeHash(shape...)
	o.NonTrivial = len(hist) >= 4 && len(authorIdx) >= 2 && st.Renames >= 1 && st.Deletes >= 1
	o.Count("commits", len(hist))
	o.Count("renames_brace", st.Brace)
	o.Count("renames_into_subdir_{ => sub}", st.IntoSub)
	o.Count("renames_out_of_subdir_{sub => }", st.OutOfSub)
	o.Count("renames_full_path", st.FullPath)
	o.Count("renames_back_to_earlier_name", st.RenameBack)
	o.Count("renames_root_into_dir_brace_{ => d}/f", st.RootIntoDirBrace)
	o.Count("renames_dir_to_root_brace_{d => }/f", st.DirToRootBrace)
	o.Count("histories_with_authors_differing_only_in_case", st.TwinAuthors)
	o.Count("commits_dated_earlier_than_their_predecessor", st.DipCommits)
	o.Count("second_create_of_an_existing_path", st.DoubleCreates)
	o.Count("deletes", st.Deletes)
	o.Count("recreations", st.Recreates)
	o.Count(fmt.Sprintf("histories_with_max_chain_%d", st.MaxChain), 1)
	if len(hist) == 0 {
		o.Count("empty_histories", 1)
	}

	if c.Index%4 == 1 && len(hist) > 0 {
		o.Count("text_cases", 1)
		text := gitgen.RenderLog(hist)
		witness["log_text"] = text
		var parsed []cocagit.CommitMessage
		panicked, val, site := run.Guard(func() { parsed = cocagit.BuildMessageByInput(text) })
		switch {
		case panicked:
			o.Violate("panic@"+site, "BuildMessageByInput panicked: %s", val)
			return
		case canon(parsed) == canon(msgs):
			msgs = parsed
			o.Count("text_cases_parser_agreed", 1)
		default:
			o.Count("parser_disagreed", 1) // C14's business; continue with the planted list
		}
	}
	exp := oracle.GitFold(toOracle(msgs))
	if exp.Malformed != "" {
		o.SetInconclusive("generator produced a non-replayable history: " + exp.Malformed)
		return
	}
	checkInProcess(o, msgs, exp, witness)
	if c.Index < 64 && len(hist) <= 60 {
		o.Sample = map[string]interface{}{"history": hist, "team_summary": witness["team"], "top_authors": witness["top"], "change_map": witness["change_map"]}
	}
}

func checkInProcess(o *run.Outcome, msgs []cocagit.CommitMessage, exp *oracle.GitExpect, witness map[string]interface{}) {
	guard := func(name string, f func()) bool {
		panicked, val, site := run.Guard(f)
		if panicked {
			o.Violate("panic@"+site, "%s panicked: %s", name, val)
		}
		return !panicked
	}
	report := func(ms []oracle.GitMismatch, what string) {
		for _, m := range ms {
			o.Violate(m.Sig, "%s: %s", what, m.Msg)
		}
	}
	var team []cocagit.TeamSummary
	if guard("GetTeamSummary", func() { team = cocagit.GetTeamSummary(deepCopy(msgs)) }) {
		var rows []oracle.GitTeamRow
		for _, t := range team {
			rows = append(rows, oracle.GitTeamRow{Name: t.EntityName, Authors: t.AuthorCount, Revs: t.RevsCount})
		}
		witness["team"] = rows
		o.Count("team_rows_observed", len(rows))
		o.Count("team_rows_expected", len(exp.Live))
		report(exp.CheckTeam(rows), "GetTeamSummary")
	}
	var ages []cocagit.ProjectInfo
	if guard("CalculateCodeAge", func() { ages = cocagit.CalculateCodeAge(deepCopy(msgs)) }) {
		var rows []oracle.GitAgeRow
		for _, a := range ages {
			rows = append(rows, oracle.GitAgeRow{Name: a.EntityName, Date: a.Age.Format("2006-01-02")})
		}
		witness["age"] = rows
		o.Count("age_rows_observed", len(rows))
		report(exp.CheckAge(rows), "CalculateCodeAge")
	}
	var tops []cocagit.TopAuthor
	if guard("GetTopAuthors", func() { tops = cocagit.GetTopAuthors(deepCopy(msgs)) }) {
		var rows []oracle.GitTopRow
		for _, t := range tops {
			rows = append(rows, oracle.GitTopRow{Name: t.Name, Commits: t.CommitCount, Lines: t.LineCount})
		}
		witness["top"] = rows
		o.Count("top_rows_observed", len(rows))
		report(exp.CheckTop(rows), "GetTopAuthors")
	}
	var basic *cocagit.GitSummary
	if guard("BasicSummary", func() { basic = cocagit.BasicSummary(deepCopy(msgs)) }) && basic != nil {
		witness["basic"] = basic
		if exp.RenameFree {
			o.Count("basic_rename_free_histories", 1)
		}
		report(exp.CheckBasic(basic.Commits, basic.Entities, basic.Authors), "BasicSummary")
	}
	var cm map[string]map[string]int
	if guard("BuildChangeMap", func() { cm = cocagit.BuildChangeMap(deepCopy(msgs)) }) {
		witness["change_map"] = cm
		n := 0
		for _, m := range cm {
			n += len(m)
		}
		o.Count("change_map_cells_observed", n)
		report(exp.CheckChangeMap(cm), "BuildChangeMap")
	}

	// One list, several summaries, as `coca git -m -b -t -a -o` computes them in one process: the changelog first, then
	// the other summaries ON THE SAME LIST. Every summary is a function of the parsed history, so each result must be
	// what the same function returns on a fresh deep copy (computed above).
	if len(o.Violations) > 0 {
		return
	}
	shared := deepCopy(msgs)
	var buf bytes.Buffer
	var team2 []cocagit.TeamSummary
	var ages2 []cocagit.ProjectInfo
	var tops2 []cocagit.TopAuthor
	var basic2 *cocagit.GitSummary
	var cm2 map[string]map[string]int
	if !guard("changelog-then-summaries on one list", func() {
		cocagit.ShowChangeLogSummary(shared, &buf)
		cm2 = cocagit.BuildChangeMap(shared)
		basic2 = cocagit.BasicSummary(shared)
		team2 = cocagit.GetTeamSummary(shared)
		ages2 = cocagit.CalculateCodeAge(shared)
		tops2 = cocagit.GetTopAuthors(shared)
	}) {
		return
	}
	o.Count("sequences_on_one_list", 1)
	differs := func(table, fresh, after string) {
		if fresh != after {
			o.Violate("sequence/"+table+"-after-changelog-differs-from-fresh-copy", "%s computed on the list that ShowChangeLogSummary/BuildChangeMap had just processed: %s; on a fresh copy of the same list: %s", table, clip(after, 500), clip(fresh, 500))
		}
	}
	differs("change-map", fmt.Sprint(cm), fmt.Sprint(cm2)) // fmt prints maps with sorted keys
	if basic != nil && basic2 != nil {
		differs("basic-summary", fmt.Sprintf("commits=%d paths=%d authors=%d", basic.Commits, basic.Entities, basic.Authors), fmt.Sprintf("commits=%d paths=%d authors=%d", basic2.Commits, basic2.Entities, basic2.Authors))
	}
	differs("team-summary", canonTeam(team), canonTeam(team2))
	differs("code-age", canonAge(ages), canonAge(ages2))
	differs("top-authors", canonTop(tops), canonTop(tops2))
	if printed, err := parseChangelog(buf.String()); err != nil {
		o.Violate("changelog-unreadable", "ShowChangeLogSummary: %v", err)
	} else {
		o.Count("changelog_blocks_printed", len(printed))
		report(exp.CheckChangeMapTop(printed, 10), "ShowChangeLogSummary")
	}
}

func deepCopy(ms []cocagit.CommitMessage) []cocagit.CommitMessage {
	out := make([]cocagit.CommitMessage, len(ms))
	for i, m := range ms {
		out[i] = m
		out[i].Changes = append([]cocagit.FileChange(nil), m.Changes...)
	}
	return out
}

func sortedJoin(rows []string) string {
	sort.Strings(rows)
	return strings.Join(rows, "; ")
}

func canonTeam(ts []cocagit.TeamSummary) string {
	var rows []string
	for _, t := range ts {
		rows = append(rows, fmt.Sprintf("%q authors=%d revs=%d", t.EntityName, t.AuthorCount, t.RevsCount))
	}
	return sortedJoin(rows)
}

func canonAge(as []cocagit.ProjectInfo) string {
	var rows []string
	for _, a := range as {
		rows = append(rows, fmt.Sprintf("%q %s", a.EntityName, a.Age.Format("2006-01-02")))
	}
	return sortedJoin(rows)
}

func canonTop(ts []cocagit.TopAuthor) string {
	var rows []string
	for _, t := range ts {
		rows = append(rows, fmt.Sprintf("%q commits=%d lines=%d", t.Name, t.CommitCount, t.LineCount))
	}
	return sortedJoin(rows)
}

// ---------------------------------------------------------------------------------------------------------------
// CLI slice

func runCLI(c *run.Ctx, o *run.Outcome) {
	o.Count("cli_cases", 1)
	sc := gitgen.Generate(c.Rng.Fork(), gitgen.Opts{MinCommits: 3, MaxCommits: 14, MaxOps: 6, Plain: true, Conventional: true})
	repo := filepath.Join(c.Scratch(), "repo")
	witness := map[string]interface{}{"script": sc}
	o.Witness = witness
	if err := gitgen.Build(sc, repo); err != nil {
		o.SetInconclusive("generator: " + head(err.Error()))
		return
	}
	run1 := func(flag string) (string, bool) {
		res := common.RunCLI(c.CocaBin, repo, gitgen.Env(repo), "git", flag)
		if res.TimedOut {
			o.SetInconclusive("cli watchdog")
			return "", false
		}
		if res.ExitCode != 0 || strings.Contains(res.Stderr, "panic:") || strings.Contains(res.Stderr, "fatal error") {
			o.Violate("cli/crash", "`coca git %s` exit %d: %s", flag, res.ExitCode, head(res.Stderr+" "+res.Stdout))
			return "", false
		}
		witness["stdout"+flag] = clip(res.Stdout, 6000)
		return res.Stdout, true
	}
	outT, ok := run1("-t")
	if !ok {
		return
	}
	b, err := ioutil.ReadFile(filepath.Join(repo, "coca_reporter", "commits.json"))
	var parsed []cocagit.CommitMessage
	if err != nil || json.Unmarshal(b, &parsed) != nil {
		o.Violate("cli/no-commits-json", "`coca git -t` left no readable coca_reporter/commits.json")
		return
	}
	witness["commits_json"] = parsed
	exp := oracle.GitFold(toOracle(parsed))
	o.Count("cli_commits", len(parsed))
	o.Shape = run.ShapeHash("cli", len(parsed), len(exp.Live), exp.RenameFree)
	o.NonTrivial = len(parsed) >= 3 && !exp.RenameFree
	report := func(ms []oracle.GitMismatch, what string) {
		for _, m := range ms {
			o.Violate("cli/"+m.Sig, "%s: %s", what, m.Msg)
		}
	}
	replayable := exp.Malformed == ""
	if !replayable {
		// what the parser made of the log is not a history (property C14 decides about that); team summary and code
		// age are defined by replaying a history, so only the fold-free tables are judged
		o.Count("cli_parsed_history_not_replayable", 1)
		witness["not_replayable"] = exp.Malformed
	}
	if replayable {
		_, rows, err := parseTable(outT, 3)
		if err != nil {
			o.Violate("cli/table-unreadable", "`coca git -t`: %v", err)
		} else {
			var tr []oracle.GitTeamRow
			for _, r := range rows {
				tr = append(tr, oracle.GitTeamRow{Name: r[0], Revs: atoi(r[1]), Authors: atoi(r[2])})
			}
			o.Count("cli_team_rows", len(tr))
			report(exp.CheckTeam(tr), "`coca git -t`")
		}
		if outA, ok := run1("-a"); ok {
			_, rows, err := parseTable(outA, 2)
			if err != nil {
				o.Violate("cli/table-unreadable", "`coca git -a`: %v", err)
			} else {
				var ar []oracle.GitAgeRow
				for _, r := range rows {
					ar = append(ar, oracle.GitAgeRow{Name: r[0], Date: exp.FirstDate(r[0])})
				}
				o.Count("cli_age_rows", len(ar))
				report(exp.CheckAge(ar), "`coca git -a`")
			}
		}
	}
	if outO, ok := run1("-o"); ok {
		_, rows, err := parseTable(outO, 3)
		if err != nil {
			o.Violate("cli/table-unreadable", "`coca git -o`: %v", err)
		} else {
			var tr []oracle.GitTopRow
			for _, r := range rows {
				tr = append(tr, oracle.GitTopRow{Name: r[0], Commits: atoi(r[1]), Lines: atoi(r[2])})
			}
			o.Count("cli_top_rows", len(tr))
			report(exp.CheckTop(tr), "`coca git -o`")
		}
	}
	if outB, ok := run1("-b"); ok {
		_, rows, err := parseTable(outB, 2)
		if err != nil {
			o.Violate("cli/table-unreadable", "`coca git -b`: %v", err)
		} else {
			v := map[string]int{}
			for _, r := range rows {
				v[r[0]] = atoi(r[1])
			}
			report(exp.CheckBasic(v["Commits"], v["Entities"], v["Authors"]), "`coca git -b`")
		}
	}
	if outM, ok := run1("-m"); ok {
		got, err := parseChangelog(outM)
		if err != nil {
			o.Violate("cli/changelog-unreadable", "`coca git -m`: %v", err)
		} else {
			report(exp.CheckChangeMapTop(got, 10), "`coca git -m`")
		}
	}
	checkCombined(c, o, repo, exp, replayable, witness)
	checkCut(c, o, repo, exp, replayable, witness)
	if c.Index < 64*cliEvery(c.Tier) {
		o.Sample = map[string]interface{}{"cli": true, "commits_json": parsed, "team_table": clip(outT, 1500)}
	}
}

// checkCombined runs ONE invocation with all flags. cmd/git.go then prints the changelog first and re-renders one
// growing table after each flag: render k repeats the rows of render k-1 and appends its own. The rows each render
// adds are judged like the single-flag tables (expectation: fold of commits.json, written before anything else runs).
// If the output does not have that layout nothing is judged (layout is not part of the statement).
func checkCombined(c *run.Ctx, o *run.Outcome, repo string, exp *oracle.GitExpect, replayable bool, witness map[string]interface{}) {
	res := common.RunCLI(c.CocaBin, repo, gitgen.Env(repo), "git", "-m", "-b", "-t", "-a", "-o")
	if res.TimedOut {
		return
	}
	if res.ExitCode != 0 || strings.Contains(res.Stderr, "panic:") || strings.Contains(res.Stderr, "fatal error") {
		o.Violate("cli-combined/crash", "`coca git -m -b -t -a -o` exit %d: %s", res.ExitCode, head(res.Stderr+" "+res.Stdout))
		return
	}
	witness["stdout-m-b-t-a-o"] = clip(res.Stdout, 8000)
	renders := parseRenders(res.Stdout)
	ok := len(renders) == 4
	for i := 1; ok && i < 4; i++ {
		ok = len(renders[i]) >= len(renders[i-1])
	}
	if !ok {
		o.Count("cli_combined_layout_not_recognised", 1)
		return
	}
	o.Count("cli_combined_invocations_judged", 1)
	report := func(ms []oracle.GitMismatch, what string) {
		for _, m := range ms {
			o.Violate("cli-combined/"+m.Sig, "%s (one invocation `coca git -m -b -t -a -o`): %s", what, m.Msg)
		}
	}
	cells := func(rows [][]string, n int) bool {
		for _, r := range rows {
			if len(r) != n {
				return false
			}
		}
		return true
	}
	basicRows, teamRows, ageRows, topRows := renders[0], renders[1][len(renders[0]):], renders[2][len(renders[1]):], renders[3][len(renders[2]):]
	if !cells(basicRows, 2) || !cells(teamRows, 3) || !cells(ageRows, 2) || !cells(topRows, 3) {
		o.Count("cli_combined_layout_not_recognised", 1)
		return
	}
	v := map[string]int{}
	for _, r := range basicRows {
		v[r[0]] = atoi(r[1])
	}
	report(exp.CheckBasic(v["Commits"], v["Entities"], v["Authors"]), "basic rows")
	if replayable {
		var tr []oracle.GitTeamRow
		for _, r := range teamRows {
			tr = append(tr, oracle.GitTeamRow{Name: r[0], Revs: atoi(r[1]), Authors: atoi(r[2])})
		}
		report(exp.CheckTeam(tr), "team rows")
		var ar []oracle.GitAgeRow
		for _, r := range ageRows {
			ar = append(ar, oracle.GitAgeRow{Name: r[0], Date: exp.FirstDate(r[0])})
		}
		report(exp.CheckAge(ar), "code-age rows")
	}
	var top []oracle.GitTopRow
	for _, r := range topRows {
		top = append(top, oracle.GitTopRow{Name: r[0], Commits: atoi(r[1]), Lines: atoi(r[2])})
	}
	report(exp.CheckTop(top), "top-author rows")
	if got, err := parseChangelog(res.Stdout); err == nil {
		report(exp.CheckChangeMapTop(got, 10), "changelog blocks")
	}
}

// checkCut runs every section with --full --size N, N in 1..3 (one N per CLI case). The three listings are cut to N
// rows, legitimately; the basic summary is no listing: its table must still give commits, paths and authors.
func checkCut(c *run.Ctx, o *run.Outcome, repo string, exp *oracle.GitExpect, replayable bool, witness map[string]interface{}) {
	n := 1 + (c.Index/cliEvery(c.Tier))%3
	size := fmt.Sprint(n)
	o.Count("cli_cut_cases_size_"+size, 1)
	runF := func(flag string, cols int) ([][]string, bool) {
		res := common.RunCLI(c.CocaBin, repo, gitgen.Env(repo), "git", flag, "-f", "-s", size)
		if res.TimedOut {
			return nil, false
		}
		what := "`coca git " + flag + " -f -s " + size + "`"
		if res.ExitCode != 0 || strings.Contains(res.Stderr, "panic:") || strings.Contains(res.Stderr, "fatal error") {
			o.Violate("cli/crash", "%s exit %d: %s", what, res.ExitCode, head(res.Stderr+" "+res.Stdout))
			return nil, false
		}
		witness["stdout"+flag+"-f-s"+size] = clip(res.Stdout, 3000)
		_, rows, err := parseTable(res.Stdout, cols)
		if err != nil {
			o.Violate("cli/table-unreadable", "%s: %v", what, err)
			return nil, false
		}
		return rows, true
	}
	report := func(ms []oracle.GitMismatch, flag string) {
		for _, m := range ms {
			o.Violate("cli/"+m.Sig, "`coca git %s -f -s %s`: %s", flag, size, m.Msg)
		}
	}
	if rows, ok := runF("-b", 2); ok {
		v := map[string]int{}
		for _, r := range rows {
			v[r[0]] = atoi(r[1])
		}
		o.Count("cli_basic_tables_with_full_and_size_below_4", 1)
		report(exp.CheckBasicRows(v), "-b")
	}
	if rows, ok := runF("-o", 3); ok {
		var tr []oracle.GitTopRow
		for _, r := range rows {
			tr = append(tr, oracle.GitTopRow{Name: r[0], Commits: atoi(r[1]), Lines: atoi(r[2])})
		}
		report(exp.CheckTopCut(tr, n), "-o")
	}
	if !replayable {
		return
	}
	if rows, ok := runF("-t", 3); ok {
		var tr []oracle.GitTeamRow
		for _, r := range rows {
			tr = append(tr, oracle.GitTeamRow{Name: r[0], Revs: atoi(r[1]), Authors: atoi(r[2])})
		}
		o.Count("cli_cut_team_rows", len(tr))
		report(exp.CheckTeamCut(tr, n), "-t")
	}
	if rows, ok := runF("-a", 2); ok {
		var names []string
		for _, r := range rows {
			names = append(names, r[0])
		}
		report(exp.CheckAgeCut(names, n), "-a")
	}
}

func atoi(s string) int {
	n := 0
	neg := false
	for i, ch := range s {
		switch {
		case i == 0 && ch == '-':
			neg = true
		case ch >= '0' && ch <= '9':
			n = n*10 + int(ch-'0')
		default:
			return -1 << 30
		}
	}
	if neg {
		return -n
	}
	return n
}

func clip(s string, n int) string {
	if len(s) > n {
		return s[:n] + "…"
	}
	return s
}

func head(s string) string {
	s = strings.TrimSpace(s)
	if len(s) > 300 {
		s = s[:300]
	}
	return strings.ReplaceAll(s, "\n", " / ")
}
