// Package c16 drives `coca cloc DIR --by-directory` and `coca cloc DIR --top-file --top-size N` through the real
// binary on generated trees with planted line counts (gen/treegen) and lets oracle/cloc.go decide. The property's
// observe_at is the CLI only (stdout + files under coca_reporter/), so this adapter imports no coca package.
//
// Besides the per-case monitor it carries the project's only use of the Go race detector: in the coordinator's
// Extra hook the same two workloads are run with the `-race` build of coca (bin/coca-race) on larger trees under
// GOMAXPROCS 1/2/4/16; `WARNING: DATA RACE` blocks are read from the GORACE log files (the exit code is not
// used), de-duplicated by the pair of coca/scc frames nearest to the two conflicting accesses, and every distinct
// pair is a violation.
package c16

import (
	"bytes"
	"context"
	"encoding/csv"
	"encoding/json"
	"fmt"
	"io/ioutil"
	"os"
	"os/exec"
	"path/filepath"
	"sort"
	"strconv"
	"strings"
	"sync"
	"time"

	"verifharness/adapter/common"
	"verifharness/gen/treegen"
	"verifharness/oracle"
	"verifharness/run"
)

// raceBase is the case-index space of the race runs (so that a race violation has a replayable case number).
const raceBase = 1000000

// Case list: indices 0..24 ordinary trees, 25..27 "wide" trees (one language with 1024-1400 files); thorough
// extends it: 28..499 ordinary, 500..519 wide.
func cases(tier string) int {
	if tier == "thorough" {
		return 520
	}
	return 28
}

func isWide(idx int) bool { return (idx >= 25 && idx < 28) || (idx >= 500 && idx < raceBase) }

// wideFiles: the length of the long list; the boundary value 1024 is drawn often.
func wideFiles(r *run.Rand) int {
	if r.Chance(1, 4) {
		return 1024
	}
	return r.Range(1025, 1400)
}

func raceRuns(tier string) int {
	if v := os.Getenv("VERIF_C16_RACE_RUNS"); v != "" {
		if n, err := strconv.Atoi(v); err == nil {
			return n
		}
	}
	if tier == "thorough" {
		return 100
	}
	return 8
}

var gomaxprocsValues = []int{1, 2, 4, 16}

var Check = &run.Check{
	ID:    "C16",
	Level: "exploration",
	Rule: "case = generated tree (0-8 immediate sub-directories of kinds plain / dotted name / look-alikes of the ignored names (jgit, xsvn, ahg, aidea, git, .github, .gitx, my_coca_reporter ...) / deep-only modules (all files 2-4 levels down, backend/src/main/...; by-directory then runs with an include-ext naming such an extension) / " +
		".git,.svn,.hg,.idea,coca_reporter / empty / nested with files at several depths; directories named coca_reporter, .idea, old_coca_reporter at depth >= 2 with sources; " +
		"sometimes a language that occurs only inside the top-level .idea / coca_reporter; every fifth case has all six languages (polyglot: > 5 languages in one top-file report); " +
		"0-3 root-level files; 1-6 of Java, Go, Python, JavaScript, C, Shell; every file has planted code/comment/blank line counts, whole-line comments only) " +
		"x 4 executions of the real CLI: by-directory with the scanned directory spelled from outside (abs, abs/, rel, ./rel, rel/, sub/.., ../rel; common.SpellRoot, rotating with the case index) " +
		"and from inside (`.` or `..` from an empty sub-directory), top-file likewise, " +
		"each with its own include-ext filter (none / subset / extension absent from the tree; -i and --include-ext forms) and top-size (default, 0..100); " +
		"cases 25-27 (thorough also 500-519) are wide trees: ONE language with 1024-1400 files of 1-3 code lines plus ~40 scattered peaks of 4-60 lines over 8 sub-directories, " +
		"3 top-file executions (N 1-20, default 30, 50-200 restricted to that language) + 1 by-directory; " +
		"cloc.csv, the stdout table, sort_cloc.json and the printed tables are all checked by oracle/cloc.go; " +
		"non-trivial = >= 2 non-ignored sub-directories with code, >= 2 languages, and at least one of: ignored directory with files, empty directory, root-level file; " +
		"distinct = hash of (directory kinds with file counts, root file count, language set, filters, top sizes, cwd modes); " +
		"plus coordinator-level race runs: coca built with -race on trees of several hundred files / 8 sub-directories (every third run on a wide tree) under GOMAXPROCS 1,2,4,16",
	Assumptions: []string{
		"only text whose line classification is undisputed is generated (see gen/treegen: no shebang lines, docstrings, trailing comments, comment markers in strings, extension-less files, .gitignore)",
		"no path component other than the top-level VCS directories ends in .git/.hg/.svn",
		"'the languages found in the whole tree' includes the top-level .idea and coca_reporter (the repository's golden cloc_ignore.txt names a language found only in .idea); a language found only below a top-level .git/.svn/.hg may or may not be named, and such files may or may not be listed by top-file (left open)",
		"the ignored directories are exactly the immediate sub-directories named .git .svn .hg .idea coca_reporter; look-alike names (jgit, .github, git, my_coca_reporter ...) are ordinary and need a row; a directory called coca_reporter or .idea below an immediate sub-directory belongs to that sub-directory; nested .git/.svn/.hg and other IDE directories (.vscode ...) are not generated (open)",
		"the `..` and `sub/..` spellings add the empty sub-directory zzcwd to the scanned tree (created by common.SpellRoot): it is expected as one more all-zero row",
		"row order and column order are not promised by the statement and not asserted; cells are read through the header",
		"printed top-file tables are required only when the report has at most five languages (cmd/cloc.go suppresses them otherwise, on purpose); the Location text is only required to be a suffix of a matching file's path",
		"each execution gets a freshly materialised tree and its own working directory, so coca_reporter never holds output of an earlier execution",
		"the race detector only sees the interleavings that happen; 0 reports is 'none observed in N runs', not absence",
	},
	Cases: cases,
	Floor: func(tier string) int {
		if tier == "thorough" {
			return 150
		}
		return 8
	},
	Run:        runCase,
	Extra:      raceExtra,
	MaxSamples: 3,
}

// ---------------------------------------------------------------------------------------------------------------
// one execution of the CLI

type spec struct {
	Mode       string   `json:"mode"`         // bydir | top
	Pick       int      `json:"root_pick"`    // common.SpellRoot selector
	Cwd        string   `json:"root_spelled"` // its kind: abs | abs-slash | rel | dot-rel | rel-slash | dot | dotdot | sub-dotdot | via-sibling
	Filter     []string `json:"filter,omitempty"`
	FilterForm int      `json:"filter_form"`
	TopN       int      `json:"top_n"` // -1: flag omitted (default 30)
	TopForm    int      `json:"top_form"`
	FlagsFirst bool     `json:"flags_first"`
}

type observation struct {
	Spec     spec     `json:"spec"`
	Args     []string `json:"args"`
	Exit     int      `json:"exit"`
	Stdout   string   `json:"stdout"`
	Stderr   string   `json:"stderr,omitempty"`
	Csv      string   `json:"cloc_csv,omitempty"`
	SortJSON string   `json:"sort_cloc_json_reduced,omitempty"`
	listLens []int
}

func (s spec) args(dirArg string) []string {
	var flags []string
	if s.Mode == "bydir" {
		flags = append(flags, "--by-directory")
	} else {
		flags = append(flags, "--top-file")
		if s.TopN >= 0 {
			if s.TopForm == 0 {
				flags = append(flags, "--top-size", strconv.Itoa(s.TopN))
			} else {
				flags = append(flags, "--top-size="+strconv.Itoa(s.TopN))
			}
		}
	}
	if len(s.Filter) > 0 {
		switch s.FilterForm {
		case 0:
			flags = append(flags, "-i", strings.Join(s.Filter, ","))
		case 1:
			flags = append(flags, "--include-ext="+strings.Join(s.Filter, ","))
		case 2:
			for _, e := range s.Filter {
				flags = append(flags, "--include-ext", e)
			}
		default:
			for _, e := range s.Filter {
				flags = append(flags, "-i", e)
			}
		}
	}
	if s.FlagsFirst {
		return append(append([]string{"cloc"}, flags...), dirArg)
	}
	return append([]string{"cloc", dirArg}, flags...)
}

func (s spec) topSize() int {
	if s.TopN < 0 {
		return 30
	}
	return s.TopN
}

type cliResult struct {
	Stdout, Stderr string
	Exit           int
	TimedOut       bool
}

func runCLI(bin, dir string, env []string, timeout time.Duration, args ...string) cliResult {
	ctx, cancel := context.WithTimeout(context.Background(), timeout)
	defer cancel()
	cmd := exec.CommandContext(ctx, bin, args...)
	cmd.Dir = dir
	cmd.Env = append(os.Environ(), env...)
	var so, se bytes.Buffer
	cmd.Stdout = &so
	cmd.Stderr = &se
	err := cmd.Run()
	res := cliResult{Stdout: so.String(), Stderr: se.String()}
	if ctx.Err() != nil {
		res.TimedOut = true
	}
	if err != nil {
		if ee, ok := err.(*exec.ExitError); ok {
			res.Exit = ee.ExitCode()
		} else {
			res.Exit = -1
		}
	}
	return res
}

func clip(s string, n int) string {
	if len(s) > n {
		return s[:n] + "…"
	}
	return s
}

type sortLang struct {
	Name  string
	Files []struct {
		Location string
		Language string
		Code     int64
	}
}

// execute materialises the tree under base, runs one CLI execution and applies the oracle.
// raceBuild: exit code 66 is what a -race binary returns when it reported something; not a crash.
// execute runs one CLI execution; every mismatch signature carries the way the scanned directory was spelled.
func execute(bin string, t *treegen.Tree, base string, s spec, env []string, raceBuild bool, timeout time.Duration) (observation, []oracle.ClocMismatch, string) {
	ob, ms, incon := executeRaw(bin, t, base, s, env, raceBuild, timeout)
	for i := range ms {
		if !strings.Contains(ms[i].Sig, "@") {
			ms[i].Sig += "@" + ob.Spec.Cwd
		}
	}
	return ob, ms, incon
}

func executeRaw(bin string, t *treegen.Tree, base string, s spec, env []string, raceBuild bool, timeout time.Duration) (observation, []oracle.ClocMismatch, string) {
	ob := observation{Spec: s}
	var ms []oracle.ClocMismatch
	root := filepath.Join(base, "proj")
	if err := t.Materialize(root); err != nil {
		return ob, nil, "cannot materialise tree: " + err.Error()
	}
	tmp := filepath.Join(base, "tmp")
	os.MkdirAll(tmp, 0o755)
	fallback := filepath.Join(base, "cwd")
	os.MkdirAll(fallback, 0o755)
	cwd, dirArg, kind := common.SpellRoot(s.Pick, root, fallback)
	s.Cwd = kind
	ob.Spec = s
	if kind == "dotdot" || kind == "sub-dotdot" {
		// SpellRoot created the empty directory proj/zzcwd: one more immediate sub-directory of the scanned tree
		// (for `..` it is the working directory, so coca_reporter/ is written below it: JSON only, none of the six
		// languages, so its row is all zeros like that of any empty directory)
		t = t.WithEmptySub("zzcwd")
	}
	os.MkdirAll(cwd, 0o755)
	ob.Args = s.args(dirArg)
	res := runCLI(bin, cwd, append([]string{"TMPDIR=" + tmp}, env...), timeout, ob.Args...)
	ob.Exit, ob.Stdout, ob.Stderr = res.Exit, clip(res.Stdout, 6000), clip(res.Stderr, 1500)
	if res.TimedOut {
		return ob, nil, "cli watchdog"
	}
	okExit := res.Exit == 0 || (raceBuild && res.Exit == 66)
	if !okExit || strings.Contains(res.Stderr, "panic:") || strings.Contains(res.Stderr, "fatal error:") {
		sig := "cli-crash-" + s.Mode + "@" + kind
		ms = append(ms, oracle.ClocMismatch{Sig: sig, Msg: fmt.Sprintf("`coca %s` (cwd %s) exit %d: %s", strings.Join(ob.Args, " "), s.Cwd, res.Exit, clip(firstLines(res.Stderr, 4), 400))})
		return ob, ms, ""
	}
	flt := oracle.ClocFilter(s.Filter)
	rep := filepath.Join(cwd, "coca_reporter")
	if s.Mode == "bydir" {
		b, err := ioutil.ReadFile(filepath.Join(rep, "cloc.csv"))
		if err != nil {
			ms = append(ms, oracle.ClocMismatch{Sig: "bydir-no-csv", Msg: "no coca_reporter/cloc.csv: " + err.Error()})
		} else {
			ob.Csv = clip(string(b), 4000)
			rd := csv.NewReader(bytes.NewReader(b))
			rd.FieldsPerRecord = -1
			table, err := rd.ReadAll()
			if err != nil {
				ms = append(ms, oracle.ClocMismatch{Sig: "bydir-csv-malformed", Msg: "cloc.csv is not CSV: " + err.Error()})
			} else {
				ms = append(ms, oracle.CheckByDirTable(t, flt, table, "cloc.csv")...)
			}
		}
		ms = append(ms, oracle.CheckByDirTable(t, flt, oracle.ParseByDirStdout(res.Stdout), "stdout")...)
		return ob, ms, ""
	}
	b, err := ioutil.ReadFile(filepath.Join(rep, "sort_cloc.json"))
	if err != nil {
		ms = append(ms, oracle.ClocMismatch{Sig: "top-no-json", Msg: "no coca_reporter/sort_cloc.json: " + err.Error()})
		return ob, ms, ""
	}
	var sl []sortLang
	if err := json.Unmarshal(b, &sl); err != nil {
		ms = append(ms, oracle.ClocMismatch{Sig: "top-json-malformed", Msg: "sort_cloc.json: " + err.Error()})
		return ob, ms, ""
	}
	var langs []oracle.ClocTopLang
	var red strings.Builder
	for _, l := range sl {
		tl := oracle.ClocTopLang{Name: l.Name}
		fmt.Fprintf(&red, "%s:", l.Name)
		for _, f := range l.Files {
			rel, err := filepath.Rel(root, common.AbsFrom(cwd, f.Location))
			if err != nil || rel == ".." || strings.HasPrefix(rel, "../") {
				rel = ""
			}
			tl.Files = append(tl.Files, oracle.ClocTopFile{Rel: filepath.ToSlash(rel), Location: f.Location, Language: f.Language, Code: int(f.Code)})
			fmt.Fprintf(&red, " %s=%d", filepath.ToSlash(rel), f.Code)
		}
		red.WriteString("\n")
		ob.listLens = append(ob.listLens, len(tl.Files))
		langs = append(langs, tl)
	}
	ob.SortJSON = clip(red.String(), 6000)
	ms = append(ms, oracle.CheckClocTopFile(t, flt, s.topSize(), langs, oracle.ParseClocTopStdout(res.Stdout))...)
	return ob, ms, ""
}

func firstLines(s string, n int) string {
	ls := strings.Split(strings.TrimSpace(s), "\n")
	if len(ls) > n {
		ls = ls[:n]
	}
	return strings.Join(ls, " / ")
}

// ---------------------------------------------------------------------------------------------------------------
// the per-case monitor

func drawFilter(r *run.Rand, t *treegen.Tree, wantAtMost5 bool) []string {
	present := map[string]bool{}
	for _, f := range t.Files {
		present[f.Ext] = true
	}
	var exts []string
	for _, l := range treegen.Langs {
		if present[l.Ext] {
			exts = append(exts, l.Ext)
		}
	}
	if len(exts) == 0 {
		if r.Chance(1, 2) {
			return nil
		}
		return []string{r.Pick([]string{"java", "go", "kt"})}
	}
	must := wantAtMost5 && len(exts) > 5
	if !must && !r.Chance(2, 5) {
		return nil
	}
	k := r.Range(1, len(exts))
	if must && k > 5 {
		k = 5
	}
	var out []string
	for _, i := range r.Perm(len(exts))[:k] {
		out = append(out, exts[i])
	}
	if r.Chance(1, 4) {
		// an extension the tree does not have (one of the six, or one outside them)
		var absent []string
		for _, l := range treegen.Langs {
			if !present[l.Ext] {
				absent = append(absent, l.Ext)
			}
		}
		absent = append(absent, "kt")
		out = append(out, r.Pick(absent))
	}
	return out
}

var spellKinds = []string{"abs", "abs-slash", "rel", "dot-rel", "rel-slash", "dot", "dotdot", "sub-dotdot", "via-sibling"}

// outsidePicks: spellings whose working directory is outside the scanned tree; insidePicks: `.` and `..`
// (coca_reporter/ is then written inside the tree, where it is an ignored directory itself).
var outsidePicks = []int{0, 1, 2, 3, 4, 7, 8}

func sp(mode string, pick int) spec { return spec{Mode: mode, Pick: pick, Cwd: spellKinds[pick%9]} }

func insidePick(r *run.Rand) int {
	if r.Chance(1, 3) {
		return 6
	}
	return 5
}

// drawSpecs: the spellings rotate with the case index, so that a run of n cases covers all nine kinds.
func drawSpecs(r *run.Rand, t *treegen.Tree, idx int, allLangs bool) []spec {
	tops := []int{-1, 0, 1, 1, 2, 3, 5, 10, 30, 100}
	a := sp("bydir", outsidePicks[idx%len(outsidePicks)])
	a.Filter, a.FilterForm, a.FlagsFirst = drawFilter(r, t, false), r.Intn(4), r.Chance(1, 4)
	b := sp("bydir", insidePick(r))
	b.Filter, b.FilterForm, b.FlagsFirst = drawFilter(r, t, false), r.Intn(4), r.Chance(1, 4)
	c := sp("top", (idx*2+1)%9)
	c.Filter, c.FilterForm, c.TopN, c.TopForm, c.FlagsFirst = drawFilter(r, t, r.Chance(2, 3)), r.Intn(4), tops[r.Intn(len(tops))], r.Intn(2), r.Chance(1, 4)
	d := sp("top", insidePick(r))
	d.Filter, d.FilterForm, d.TopN, d.TopForm, d.FlagsFirst = drawFilter(r, t, r.Chance(2, 3)), r.Intn(4), tops[r.Intn(len(tops))], r.Intn(2), r.Chance(1, 4)
	if deep := t.DeepOnly(); len(deep) > 0 {
		// a sub-directory whose files of some extension all lie >= 2 levels down: make sure by-directory runs with an
		// include-ext filter that names that extension (outside spelling always, inside spelling half of the time)
		ext := deep[r.Intn(len(deep))][1]
		withExt := func(f []string) []string {
			for _, x := range f {
				if x == ext {
					return f
				}
			}
			return append(append([]string{}, f...), ext)
		}
		a.Filter = withExt(a.Filter)
		if r.Bool() {
			b.Filter = withExt(b.Filter)
		}
	}
	if allLangs {
		// the polyglot cases: the whole tree, no filter (six languages in one top-file report)
		c.Filter = nil
		if r.Bool() {
			d.Filter = nil
		}
	}
	return []spec{a, b, c, d}
}

// wideCount is the length of the longest per-language file list of the tree.
func wideCount(t *treegen.Tree) int {
	n := map[string]int{}
	best := 0
	for _, f := range t.Files {
		n[f.Lang]++
		if n[f.Lang] > best {
			best = n[f.Lang]
		}
	}
	return best
}

func wideExt(t *treegen.Tree) string {
	n := map[string]int{}
	best, ext := 0, ""
	for _, f := range t.Files {
		n[f.Ext]++
		if n[f.Ext] > best {
			best, ext = n[f.Ext], f.Ext
		}
	}
	return ext
}

// drawWideSpecs: three top-file executions on a wide tree (small N, default N, N larger than the peaks; one of them
// restricted to the wide language) and one by-directory execution.
func drawWideSpecs(r *run.Rand, t *treegen.Tree) []spec {
	small := []int{1, 3, 5, 10, 20}
	a := sp("top", outsidePicks[r.Intn(len(outsidePicks))])
	a.TopN, a.TopForm, a.FlagsFirst = small[r.Intn(len(small))], r.Intn(2), r.Chance(1, 4)
	b := sp("top", 5)
	b.TopN = -1
	c := sp("top", outsidePicks[r.Intn(len(outsidePicks))])
	c.Filter, c.FilterForm, c.TopN, c.TopForm = []string{wideExt(t)}, r.Intn(4), []int{50, 100, 200}[r.Intn(3)], r.Intn(2)
	d := sp("bydir", []int{5, 0, 6}[r.Intn(3)])
	return []spec{a, b, c, d}
}

// langsOnlyInIdeOrReportDir counts languages all of whose files live in the top-level .idea / coca_reporter.
func langsOnlyInIdeOrReportDir(t *treegen.Tree) int {
	in, out := map[string]bool{}, map[string]bool{}
	for _, f := range t.Files {
		top := f.TopDir()
		if top == ".idea" || top == "coca_reporter" {
			in[f.Lang] = true
		} else if !treegen.IsVCSName(top) {
			out[f.Lang] = true
		}
	}
	n := 0
	for l := range in {
		if !out[l] {
			n++
		}
	}
	return n
}

func treeStats(t *treegen.Tree) (dirsWithCode, langs int, special bool) {
	code := map[string]int{}
	ls := map[string]bool{}
	for _, f := range t.Files {
		ls[f.Lang] = true
		top := f.TopDir()
		if top == "" {
			special = true
			continue
		}
		if treegen.IsIgnoredName(top) {
			special = true
			continue
		}
		code[top] += f.Code
	}
	for _, s := range t.Subs {
		if s.Kind == "empty" {
			special = true
		}
		if !s.Ignored && code[s.Name] > 0 {
			dirsWithCode++
		}
	}
	return dirsWithCode, len(ls), special
}

// isPolyglot: every fifth ordinary case has all six languages (more than five: the printed tables are suppressed,
// sort_cloc.json must still list every language).
func isPolyglot(idx int) bool { return !isWide(idx) && idx%5 == 2 }

func caseOpts(r *run.Rand, tier string) treegen.Opts {
	o := treegen.Opts{MinSubs: 0, MaxSubs: 8, MaxFilesPerDir: 5, MaxRootFiles: 3, MaxLines: 14, MaxLangs: 6}
	if r.Chance(1, 2) {
		o.MinSubs = 3 // most of the interest is in several rows
	}
	if r.Chance(1, 3) {
		o.MaxLangs = 5 // printed top-file tables need <= 5 languages
	}
	if tier == "thorough" && r.Chance(1, 10) {
		o.MaxFilesPerDir, o.MaxLines = 25, 40
	}
	return o
}

func runCase(c *run.Ctx, o *run.Outcome) {
	if c.Index >= raceBase {
		raceCase(c, o)
		return
	}
	if c.CocaBin == "" {
		o.SetInconclusive("no coca binary (VERIF_COCA unset)")
		return
	}
	r := c.Rng
	var t *treegen.Tree
	var specs []spec
	if isWide(c.Index) {
		t = treegen.GenerateWide(r.Fork(), treegen.WideOpts{Files: wideFiles(r)})
		specs = drawWideSpecs(r.Fork(), t)
		o.Count("wide_cases", 1)
		o.Count("wide_language_files", wideCount(t))
	} else {
		opts := caseOpts(r, c.Tier)
		if isPolyglot(c.Index) {
			opts.AllLangs, opts.MaxLangs = true, 6
			if opts.MinSubs < 2 {
				opts.MinSubs = 2
			}
			o.Count("polyglot_cases_6_languages", 1)
		}
		t = treegen.Generate(r.Fork(), opts)
		specs = drawSpecs(r.Fork(), t, c.Index, isPolyglot(c.Index))
	}
	dirsWithCode, nLangs, special := treeStats(t)
	o.NonTrivial = dirsWithCode >= 2 && nLangs >= 2 && special
	var shape []interface{}
	shape = append(shape, t.ShapeKey())
	for _, s := range specs {
		shape = append(shape, s.Mode, s.Cwd, len(s.Filter), s.TopN)
	}
	o.Shape = run.ShapeHash(shape...)
	o.Count("files_planted", len(t.Files))
	o.Count("subdirs_planted", len(t.Subs))
	for _, s := range t.Subs {
		o.Count("subdirs_"+s.Kind, 1)
		o.Seen("subdir_names", s.Name)
	}
	for _, f := range t.Files {
		if parts := strings.Split(f.Rel, "/"); len(parts) >= 3 {
			for _, p := range parts[1 : len(parts)-1] {
				if strings.HasSuffix(p, "coca_reporter") || p == ".idea" {
					o.Count("files_below_nested_reporter_or_idea_dir", 1)
					break
				}
			}
		}
		o.Count("code_lines_planted", f.Code)
		o.Count("comment_lines_planted", f.Comment)
		o.Count("blank_lines_planted", f.Blank)
		if f.TopDir() == "" {
			o.Count("root_level_files", 1)
		}
	}
	if n := langsOnlyInIdeOrReportDir(t); n > 0 {
		o.Count("trees_with_language_only_in_idea_or_coca_reporter", 1)
	}
	witness := map[string]interface{}{"tree": t.Describe(!isWide(c.Index))} // wide trees: bodies are regenerated on replay
	var observed []observation
	o.Witness = witness
	for i, s := range specs {
		base := filepath.Join(c.Scratch(), "r"+strconv.Itoa(i))
		ob, ms, incon := execute(c.CocaBin, t, base, s, nil, false, 120*time.Second)
		os.RemoveAll(base)
		observed = append(observed, ob)
		witness["observed"] = observed
		if incon != "" {
			o.SetInconclusive(incon)
			return
		}
		o.Count("cli_runs_"+s.Mode, 1)
		o.Count("cli_root_spelled_"+ob.Spec.Cwd, 1)
		if len(s.Filter) > 0 {
			o.Count("cli_runs_with_include_ext", 1)
		}
		countObserved(o, t, s, ob)
		for _, m := range ms {
			o.Violate(m.Sig, "[`coca %s`, root spelled %s] %s", strings.Join(ob.Args, " "), ob.Spec.Cwd, m.Msg)
		}
		if len(ms) == 0 {
			o.Count("executions_matching_oracle", 1)
		}
	}
	if c.Index < 64 {
		var runs []map[string]interface{}
		for _, ob := range observed {
			runs = append(runs, map[string]interface{}{"args": strings.Join(ob.Args, " "), "root_spelled": ob.Spec.Cwd, "cloc_csv": ob.Csv, "sort_cloc": clip(ob.SortJSON, 400)})
		}
		o.Sample = map[string]interface{}{"tree": t.Describe(false), "executions": runs}
	}
}

// countObserved records what the monitor actually saw (rows, cells, list entries, printed tables).
func countObserved(o *run.Outcome, t *treegen.Tree, s spec, ob observation) {
	if s.Mode == "bydir" {
		e := oracle.ExpectByDir(t, oracle.ClocFilter(s.Filter))
		o.Count("bydir_rows_expected", len(e.Rows))
		if len(s.Filter) > 0 {
			n := 0
			for _, de := range t.DeepOnly() {
				if oracle.ClocFilter(s.Filter).Allows(de[1]) {
					n++
				}
			}
			if n > 0 {
				o.Count("bydir_runs_with_include_ext_naming_a_2+_levels_down_only_extension", 1)
				o.Count("bydir_cells_whose_files_are_all_2+_levels_down_under_include_ext", n)
			}
		}
		if ob.Spec.Cwd == "dotdot" || ob.Spec.Cwd == "sub-dotdot" {
			o.Count("bydir_rows_expected", 1) // zzcwd
		}
		lines := strings.Split(strings.TrimSpace(ob.Csv), "\n")
		if len(lines) > 0 && ob.Csv != "" {
			o.Count("bydir_rows_observed", len(lines)-1)
			o.Count("bydir_cells_observed", (len(lines)-1)*(strings.Count(lines[0], ",")-1))
			if len(lines)-1 >= 2 {
				o.Count("bydir_reports_with_2+_rows", 1)
			}
		}
		return
	}
	nl, nf := 0, 0
	for _, l := range ob.listLens {
		nl++
		nf += l
		if l >= 1024 {
			o.Count("top_lists_with_1024+_entries_observed", 1)
		}
	}
	o.Count("top_languages_observed", nl)
	o.Count("top_list_entries_observed", nf)
	nt := strings.Count(ob.Stdout, "Language: ")
	o.Count("top_printed_tables_observed", nt)
	if nl > 5 {
		o.Count("top_runs_tables_suppressed_gt5_languages", 1)
	}
}

// ---------------------------------------------------------------------------------------------------------------
// the race monitor

type raceResult struct {
	Index       int               `json:"race_run"`
	GOMAXPROCS  int               `json:"gomaxprocs"`
	Files       int               `json:"files"`
	Subdirs     int               `json:"subdirs"`
	Reports     int               `json:"race_reports"`
	Pairs       map[string]string `json:"pairs,omitempty"` // sig -> first block
	Mismatches  []oracle.ClocMismatch
	Problem     string `json:"problem,omitempty"`
	Specs       []spec `json:"specs"`
	WallS       float64
	Wide        bool
	LongestList int
}

func raceTree(seed int64, tier string, i int) (*treegen.Tree, *run.Rand, int) {
	r := run.CaseRand("C16-race", seed, i)
	total := r.Range(300, 600)
	if tier == "thorough" {
		total = r.Range(300, 1500)
	}
	var t *treegen.Tree
	if i%3 == 2 {
		// every third race run uses a wide tree (one language with >= 1024 files): long per-language lists
		t = treegen.GenerateWide(r.Fork(), treegen.WideOpts{Files: wideFiles(r)})
	} else {
		t = treegen.Generate(r.Fork(), treegen.Opts{MinSubs: 8, MaxSubs: 8, MaxRootFiles: 6, MaxLines: 10, MaxLangs: 6, Big: true, TotalFiles: total})
	}
	return t, r, gomaxprocsValues[i%len(gomaxprocsValues)]
}

func raceRun(bin string, seed int64, tier string, i int, scratch string) raceResult {
	start := time.Now()
	t, r, gmp := raceTree(seed, tier, i)
	res := raceResult{Index: i, GOMAXPROCS: gmp, Files: len(t.Files), Subdirs: len(t.Subs), Pairs: map[string]string{}, Wide: i%3 == 2, LongestList: wideCount(t)}
	logDir := filepath.Join(scratch, "racelog")
	os.MkdirAll(logDir, 0o755)
	abs, err := filepath.Abs(logDir)
	if err != nil {
		res.Problem = err.Error()
		return res
	}
	env := []string{"GOMAXPROCS=" + strconv.Itoa(gmp), "GORACE=halt_on_error=0 log_path=" + filepath.Join(abs, "race")}
	s0 := sp("bydir", i%9)
	s0.Filter, s0.FilterForm = drawFilter(r, t, false), r.Intn(4)
	s1 := sp("top", (i+4)%9)
	s1.Filter, s1.FilterForm, s1.TopN = drawFilter(r, t, true), r.Intn(4), []int{5, 30, 200}[r.Intn(3)]
	specs := []spec{s0, s1}
	if res.Wide {
		// keep the long list in the top-file workload: no filter, or the wide language only
		specs[1].Filter = nil
		if r.Bool() {
			specs[1].Filter = []string{wideExt(t)}
		}
	}
	res.Specs = specs
	for k, s := range specs {
		base := filepath.Join(scratch, "w"+strconv.Itoa(k))
		_, ms, incon := execute(bin, t, base, s, env, true, 600*time.Second)
		os.RemoveAll(base)
		if incon != "" {
			res.Problem = incon
			return res
		}
		for _, m := range ms {
			m.Msg = fmt.Sprintf("[race build, GOMAXPROCS=%d, %d files, %s root spelled %s filter=%v] %s", gmp, len(t.Files), s.Mode, s.Cwd, s.Filter, m.Msg)
			res.Mismatches = append(res.Mismatches, m)
		}
	}
	logs, _ := filepath.Glob(filepath.Join(abs, "race*"))
	sort.Strings(logs)
	for _, lf := range logs {
		b, _ := ioutil.ReadFile(lf)
		for _, blk := range raceBlocks(string(b)) {
			res.Reports++
			sig := racePair(blk)
			if _, ok := res.Pairs[sig]; !ok {
				res.Pairs[sig] = clip(blk, 3000)
			}
		}
	}
	os.RemoveAll(logDir)
	res.WallS = time.Since(start).Seconds()
	return res
}

// raceBlocks splits a GORACE log into its `WARNING: DATA RACE` reports.
func raceBlocks(log string) []string {
	var out []string
	parts := strings.Split(log, "WARNING: DATA RACE")
	for _, p := range parts[1:] {
		if j := strings.Index(p, "=================="); j >= 0 {
			p = p[:j]
		}
		out = append(out, "WARNING: DATA RACE"+p)
	}
	return out
}

func isProjectFrame(fn string) bool {
	return strings.HasPrefix(fn, "github.com/modernizing/coca") || strings.HasPrefix(fn, "github.com/boyter/scc") || strings.HasPrefix(fn, "main.")
}

// racePair names a report by the coca/scc frame nearest to each of the two conflicting accesses (runtime and
// library frames above it are skipped; if an access stack has no such frame its top frame is used).
func racePair(block string) string {
	var frames []string
	sections := strings.Split(block, "\n\n")
	for _, sec := range sections {
		lines := strings.Split(strings.Trim(sec, "\n"), "\n")
		// skip the WARNING line if it heads this section
		for len(lines) > 0 && (strings.HasPrefix(lines[0], "WARNING") || strings.TrimSpace(lines[0]) == "") {
			lines = lines[1:]
		}
		if len(lines) == 0 {
			continue
		}
		head := lines[0]
		isAccess := strings.Contains(head, " at 0x") && (strings.HasPrefix(head, "Read") || strings.HasPrefix(head, "Write") ||
			strings.HasPrefix(head, "Previous") || strings.HasPrefix(head, "Atomic"))
		if !isAccess {
			continue
		}
		first, chosen := "", ""
		for _, l := range lines[1:] {
			if !strings.HasPrefix(l, "  ") || strings.HasPrefix(l, "      ") {
				continue // file:line lines
			}
			fn := strings.TrimSpace(l)
			if j := strings.LastIndex(fn, "("); j > 0 {
				fn = fn[:j]
			}
			if first == "" {
				first = fn
			}
			if isProjectFrame(fn) {
				chosen = fn
				break
			}
		}
		if chosen == "" {
			chosen = first
		}
		chosen = strings.TrimPrefix(chosen, "github.com/")
		frames = append(frames, chosen)
		if len(frames) == 2 {
			break
		}
	}
	for len(frames) < 2 {
		frames = append(frames, "?")
	}
	sort.Strings(frames)
	return "race:" + frames[0] + "|" + frames[1]
}

func raceWitness(res raceResult, sig string) map[string]interface{} {
	return map[string]interface{}{"race_run": res.Index, "gomaxprocs": res.GOMAXPROCS, "files": res.Files, "subdirs": res.Subdirs, "specs": res.Specs,
		"report": res.Pairs[sig], "note": "the tree is a function of (VERIF_SEED, race_run); replay re-generates it and repeats the run with the -race build"}
}

// raceCase is the replay form of one race run (case index raceBase+i).
func raceCase(c *run.Ctx, o *run.Outcome) {
	bin := filepath.Join(c.BinDir, "coca-race")
	if _, err := os.Stat(bin); err != nil {
		o.SetInconclusive("coca-race binary missing")
		return
	}
	res := raceRun(bin, c.Seed, c.Tier, c.Index-raceBase, c.Scratch())
	if res.Problem != "" {
		o.SetInconclusive("race run: " + res.Problem)
		return
	}
	for sig, blk := range res.Pairs {
		o.Violate(sig, "GOMAXPROCS=%d, %d files: %s", res.GOMAXPROCS, res.Files, clip(blk, 1200))
	}
	for _, m := range res.Mismatches {
		o.Violate(m.Sig, "%s", m.Msg)
	}
	o.Witness = map[string]interface{}{"race_run": res.Index, "gomaxprocs": res.GOMAXPROCS, "files": res.Files, "pairs": res.Pairs}
}

func raceExtra(a *run.Aggregate) {
	n := raceRuns(a.Tier)
	info := map[string]interface{}{"runs_planned": n, "gomaxprocs_values": gomaxprocsValues}
	a.Extra["race_monitor"] = info
	if n == 0 {
		info["note"] = "race runs disabled through VERIF_C16_RACE_RUNS=0"
		return
	}
	bin := filepath.Join(a.BinDir, "coca-race")
	if _, err := os.Stat(bin); err != nil {
		a.Inconclusive["race monitor: "+bin+" missing (check.sh builds it)"] += n
		info["problem"] = "binary missing"
		return
	}
	info["binary"] = bin
	tmpBase := os.Getenv("TMPDIR")
	if tmpBase == "" {
		tmpBase = "/tmp"
	}
	scratch, err := ioutil.TempDir(tmpBase, "vfc16race-")
	if err != nil {
		a.Inconclusive["race monitor: no scratch directory"] += n
		return
	}
	defer os.RemoveAll(scratch)
	results := make([]raceResult, n)
	var wg sync.WaitGroup
	sem := make(chan struct{}, 4)
	for i := 0; i < n; i++ {
		wg.Add(1)
		go func(i int) {
			defer wg.Done()
			sem <- struct{}{}
			defer func() { <-sem }()
			results[i] = raceRun(bin, a.Seed, a.Tier, i, filepath.Join(scratch, "run"+strconv.Itoa(i)))
		}(i)
	}
	wg.Wait()
	var files []int
	perGmp := map[string]int{}
	reports, done, mism, maxFiles := 0, 0, 0, 0
	pairs := map[string]int{}
	var slowest float64
	wideRuns, longest := 0, 0
	for _, res := range results {
		if res.Problem != "" {
			a.Inconclusive["race run: "+res.Problem]++
			continue
		}
		done++
		files = append(files, res.Files)
		if res.Files > maxFiles {
			maxFiles = res.Files
		}
		if res.WallS > slowest {
			slowest = res.WallS
		}
		perGmp[strconv.Itoa(res.GOMAXPROCS)]++
		if res.Wide {
			wideRuns++
			if res.LongestList > longest {
				longest = res.LongestList
			}
		}
		reports += res.Reports
		var sigs []string
		for sig := range res.Pairs {
			sigs = append(sigs, sig)
		}
		sort.Strings(sigs)
		for _, sig := range sigs {
			pairs[sig]++
			a.AddViolation(raceBase+res.Index, sig, fmt.Sprintf("data race reported by the -race build (GOMAXPROCS=%d, %d files, %d sub-directories): %s",
				res.GOMAXPROCS, res.Files, res.Subdirs, clip(firstLines(res.Pairs[sig], 14), 1200)), raceWitness(res, sig))
		}
		for _, m := range res.Mismatches {
			mism++
			a.AddViolation(raceBase+res.Index, m.Sig, m.Msg, raceWitness(res, ""))
		}
	}
	if len(files) > 24 {
		sort.Ints(files)
		info["files_per_run_min_median_max"] = []int{files[0], files[len(files)/2], files[len(files)-1]}
	} else {
		info["files_per_run"] = files
	}
	info["runs"] = done
	info["cli_executions"] = done * 2
	info["workloads"] = "each run: `cloc DIR --by-directory [-i ...]` then `cloc DIR --top-file --top-size N [-i ...]`, 8 immediate sub-directories (plain, dotted, nested, ignored, empty)"
	info["runs_per_gomaxprocs"] = perGmp
	info["max_files"] = maxFiles
	info["runs_on_wide_trees"] = wideRuns
	info["longest_per_language_list"] = longest
	info["race_reports"] = reports
	info["distinct_race_pairs"] = pairs
	info["oracle_mismatches_on_race_runs"] = mism
	info["oracle_held_on_race_runs"] = mism == 0 && done > 0
	info["slowest_run_s"] = slowest
	a.Counters["race_runs"] += done
	a.Counters["race_runs_on_wide_trees"] += wideRuns
	a.Counters["race_reports"] += reports
	a.Counters["race_run_oracle_mismatches"] += mism
}
