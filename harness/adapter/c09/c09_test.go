package c09

import (
	"fmt"

	"github.com/antlr/antlr4/runtime/Go/antlr/v4"
	parser "github.com/modernizing/coca/languages/java"

	"os"
	"os/exec"
	"path/filepath"
	"runtime"
	"runtime/pprof"
	"sort"
	"strconv"
	"strings"
	"testing"
	"time"

	"verifharness/gen/javawide"
	"verifharness/run"
)

type posListener struct {
	*antlr.DefaultErrorListener
	line, col int
}

func (c *posListener) SyntaxError(recognizer antlr.Recognizer, offendingSymbol interface{}, line, column int, msg string, e antlr.RecognitionException) {
	if c.line == 0 {
		c.line, c.col = line, column
	}
}

func firstError(text string) (int, int) {
	pl := &posListener{DefaultErrorListener: antlr.NewDefaultErrorListener()}
	lexer := parser.NewJavaLexer(antlr.NewInputStream(text))
	lexer.RemoveErrorListeners()
	lexer.AddErrorListener(pl)
	stream := antlr.NewCommonTokenStream(lexer, antlr.TokenDefaultChannel)
	p := parser.NewJavaParser(stream)
	p.RemoveErrorListeners()
	p.AddErrorListener(pl)
	p.CompilationUnit()
	if pl.line == 0 {
		tk := stream.LT(1)
		return tk.GetLine(), tk.GetColumn()
	}
	return pl.line, pl.col
}

func envN(name string, def int) int {
	if v := os.Getenv(name); v != "" {
		if n, err := strconv.Atoi(v); err == nil {
			return n
		}
	}
	return def
}

// TestHandwrittenAcceptance is the self-test of source (i): coca's own parser must accept (nearly) every file.
func TestHandwrittenAcceptance(t *testing.T) {
	n := envN("C09_N", 400)
	rejects := 0
	reasons := map[string]int{}
	fams := map[string]int{}
	maxLines := 0
	start := time.Now()
	for i := 0; i < n; i++ {
		f := javawide.Handwritten(run.CaseRand("C09-selftest", int64(envN("C09_SEED", 1)), i))
		if l := javawide.Lines(f.Text); l > maxLines {
			maxLines = l
		}
		for k := range f.Families {
			fams[k]++
		}
		t0 := time.Now()
		ok, why, pp := Accept(f.Text)
		if dt := time.Since(t0); dt > 300*time.Millisecond {
			fmt.Printf("slow: case %d %v, %d lines %d bytes\n", i, dt, javawide.Lines(f.Text), len(f.Text))
			if os.Getenv("C09_SLOWDIR") != "" {
				os.WriteFile(fmt.Sprintf("%s/slow%d.java", os.Getenv("C09_SLOWDIR"), i), []byte(f.Text), 0o644)
			}
		}
		if pp != "" {
			t.Errorf("parser panic on case %d: %s", i, pp)
		}
		if !ok {
			rejects++
			reasons[why]++
			if rejects <= envN("C09_SHOW", 3) {
				line, col := firstError(f.Text)
				ls := strings.Split(f.Text, "\n")
				lo, hi := line-3, line+1
				if lo < 0 {
					lo = 0
				}
				if hi > len(ls) {
					hi = len(ls)
				}
				fmt.Printf("---- reject case %d: %s at %d:%d\n%s\n", i, why, line, col, strings.Join(ls[lo:hi], "\n"))
			}
		}
	}
	fmt.Printf("handwritten: %d files, %d rejected, max %d lines, %d families, %.1fs\n", n, rejects, maxLines, len(fams), time.Since(start).Seconds())
	var ks []string
	for k, v := range reasons {
		ks = append(ks, fmt.Sprintf("%4d %s", v, k))
	}
	sort.Strings(ks)
	fmt.Println(strings.Join(ks, "\n"))
	if os.Getenv("C09_FAMS") != "" {
		var fk []string
		for k, v := range fams {
			fk = append(fk, fmt.Sprintf("%5d %s", v, k))
		}
		sort.Strings(fk)
		fmt.Println(strings.Join(fk, "\n"))
	}
	if rejects*50 > n {
		t.Errorf("reject rate %d/%d is above 2%%", rejects, n)
	}
}

// TestProbe parses the file named by C09_FILE and reports acceptance and per-pass results (development aid
// and witness checker): C09_FILE=/path/X.java go test -run TestProbe ./adapter/c09/
func TestProbe(t *testing.T) {
	path := os.Getenv("C09_FILE")
	if path == "" {
		t.Skip("C09_FILE not set")
	}
	b, err := os.ReadFile(path)
	if err != nil {
		t.Fatal(err)
	}
	ok, why, pp := Accept(string(b))
	fmt.Printf("accepted=%v why=%q parserPanic=%q\n", ok, why, pp)
	dir := t.TempDir()
	os.WriteFile(dir+"/Probe.java", b, 0o644)
	res, _, _ := RunPasses(dir)
	for _, r := range res {
		fmt.Printf("  %-10s panicked=%v items=%d bytes=%d %s %s %s\n", r.Pass, r.Panicked, r.Items, r.Bytes, r.Site, r.Value, r.MarshalErr)
	}
}

// TestParseTime reports the parse time of every .java file under C09_DIR (development aid).
func TestParseTime(t *testing.T) {
	dir := os.Getenv("C09_DIR")
	if dir == "" {
		t.Skip("C09_DIR not set")
	}
	var files []string
	filepath.Walk(dir, func(p string, fi os.FileInfo, err error) error {
		if err == nil && strings.HasSuffix(p, ".java") {
			files = append(files, p)
		}
		return nil
	})
	for round := 0; round < 2; round++ {
		total := time.Duration(0)
		bytes := 0
		for _, f := range files {
			b, _ := os.ReadFile(f)
			t0 := time.Now()
			consumedAll(string(b))
			dt := time.Since(t0)
			total += dt
			bytes += len(b)
			if round == 1 && os.Getenv("C09_EACH") != "" {
				fmt.Printf("%8.1fms %6d %s\n", float64(dt.Microseconds())/1000, len(b), f)
			}
		}
		fmt.Printf("round %d: %d files, %d bytes, %v\n", round, len(files), bytes, total)
	}
}

// TestGrammarSampler reports the acceptance rate of source (ii) (no bound asserted: see Assumptions).
func TestGrammarSampler(t *testing.T) {
	g, err := javawide.LoadGrammar(repoDir())
	if err != nil {
		t.Fatal(err)
	}
	n := envN("C09_N", 300)
	acc := 0
	reasons := map[string]int{}
	toks := 0
	start := time.Now()
	for i := 0; i < n; i++ {
		f := javawide.Grammatical(run.CaseRand("C09-grammar-selftest", int64(envN("C09_SEED", 1)), i), g)
		toks += len(strings.Fields(f.Text))
		ok, why, pp := Accept(f.Text)
		if pp != "" {
			fmt.Printf("parser panic on sentence %d: %s\n%s\n", i, pp, f.Text)
		}
		if ok {
			acc++
			if i < envN("C09_SHOWOK", 0) {
				fmt.Printf("---- accepted %d (%s)\n%s\n", i, f.Note, f.Text)
			}
		} else {
			reasons[short(why, 50)]++
			if len(reasons) <= envN("C09_SHOW", 0) {
				line, col := firstError(f.Text)
				ls := strings.Split(f.Text, "\n")
				if line >= 1 && line <= len(ls) {
					fmt.Printf("---- rejected %d: %s at %d:%d\n%s\n", i, why, line, col, ls[line-1])
				}
			}
		}
	}
	fmt.Printf("grammar sampler: %d sentences, %d accepted, avg %d tokens, %.1fs\n", n, acc, toks/n, time.Since(start).Seconds())
	var ks []string
	for k, v := range reasons {
		ks = append(ks, fmt.Sprintf("%4d %s", v, k))
	}
	sort.Strings(ks)
	fmt.Println(strings.Join(ks, "\n"))
	if acc == 0 {
		t.Errorf("no sampled sentence accepted")
	}
}

// TestFixtureRewrites: every fixture that coca's parser accepts unchanged must still be accepted after each kind of rewrite.
func TestFixtureRewrites(t *testing.T) {
	list := fixtures()
	if len(list) == 0 {
		t.Skip("no fixtures")
	}
	bad, rejectedUnchanged, total := 0, 0, 0
	for i, rel := range list {
		b, _ := os.ReadFile(filepath.Join(repoDir(), "_fixtures", rel))
		if ok, _, _ := Accept(string(b)); !ok {
			rejectedUnchanged++
			fmt.Printf("fixture rejected unchanged: %s\n", rel)
			continue
		}
		for kinds := 1; kinds <= 7; kinds++ {
			total++
			text, note := javawide.Rewrite(run.CaseRand("C09-rewrite-selftest", int64(kinds), i), string(b), kinds)
			if ok, why, _ := Accept(text); !ok {
				bad++
				line, col := firstError(text)
				ls := strings.Split(text, "\n")
				ctx := ""
				if line >= 1 && line <= len(ls) {
					ctx = ls[line-1]
				}
				fmt.Printf("rewrite broke %s (%s): %s at %d:%d: %s\n", rel, note, why, line, col, ctx)
			}
			if javawide.Lines(text) > 400 {
				t.Errorf("%s: %d lines after rewrite", rel, javawide.Lines(text))
			}
		}
	}
	fmt.Printf("fixtures: %d files, %d rejected unchanged, %d rewrites, %d broken\n", len(list), rejectedUnchanged, total, bad)
	if bad > 0 {
		t.Errorf("%d rewrites broke acceptance", bad)
	}
}

// TestWitnesses runs every minimal witness under testdata/witness alone in a fresh process (listener state
// survives a panicking walk) through the parser filter and the six passes and prints the crash signatures.
// With C09_STRICT=1 a crash fails the test (regression test for a tree in which the proposed fixes are merged).
func TestWitnesses(t *testing.T) {
	files, _ := filepath.Glob("testdata/witness/*.java")
	sort.Strings(files)
	for _, p := range files {
		cmd := exec.Command(os.Args[0], "-test.run", "TestProbe", "-test.v")
		cmd.Env = append(os.Environ(), "C09_FILE="+p)
		out, _ := cmd.CombinedOutput()
		var sigs []string
		accepted := false
		for _, l := range strings.Split(string(out), "\n") {
			if strings.HasPrefix(l, "accepted=true") {
				accepted = true
			}
			if strings.Contains(l, "panicked=true") {
				f := strings.Fields(l)
				sigs = append(sigs, "panic@"+f[4]+"/"+f[0])
			}
			if strings.Contains(l, "json:") {
				sigs = append(sigs, "result-not-serialisable/"+strings.Fields(l)[0])
			}
		}
		if !accepted {
			t.Errorf("%s: not accepted by coca's parser", p)
		}
		fmt.Printf("%-55s %s\n", filepath.Base(p), strings.Join(sigs, "; "))
		if len(sigs) > 0 && os.Getenv("C09_STRICT") != "" {
			t.Errorf("%s: %v", p, sigs)
		}
	}
}

// TestMemory runs C09_N unusual files of one source (C09_SRC = handwritten|grammar|fixture, default: mix as in
// the check) through the filter and the six passes and prints the live heap every 50 files (development aid).
func TestMemory(t *testing.T) {
	if os.Getenv("C09_MEM") == "" {
		t.Skip("C09_MEM not set")
	}
	n := envN("C09_N", 400)
	g, _ := javawide.LoadGrammar(repoDir())
	for i := 0; i < n; i++ {
		if os.Getenv("C09_NORESET") == "" {
			Housekeeping()
		}
		r := run.CaseRand("C09", 1, i)
		src := sourceOf(i)
		if s := os.Getenv("C09_SRC"); s != "" {
			src = s
		}
		var text string
		switch src {
		case "grammar":
			text = javawide.Grammatical(r, g).Text
		case "fixture":
			list := fixtures()
			b, _ := os.ReadFile(filepath.Join(repoDir(), "_fixtures", list[i%len(list)]))
			text, _ = javawide.Rewrite(r, string(b), 0)
		default:
			text = javawide.Handwritten(r).Text
		}
		if ok, _, _ := Accept(text); ok {
			dir := t.TempDir()
			os.WriteFile(filepath.Join(dir, "U.java"), []byte(text), 0o644)
			RunPasses(dir)
		}
		if i%50 == 49 {
			runtime.GC()
			var ms runtime.MemStats
			runtime.ReadMemStats(&ms)
			fmt.Printf("after %4d files: live heap %4d MB, sys %4d MB\n", i+1, ms.HeapAlloc>>20, ms.Sys>>20)
		}
	}
	if p := os.Getenv("C09_HEAPPROF"); p != "" {
		f, _ := os.Create(p)
		pprof.WriteHeapProfile(f)
		f.Close()
	}
}
