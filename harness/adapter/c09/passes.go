package c09

import (
	"encoding/json"
	"fmt"
	"strings"

	"github.com/antlr/antlr4/runtime/Go/antlr/v4"
	parser "github.com/modernizing/coca/languages/java"
	"github.com/modernizing/coca/pkg/application/analysis/javaapp"
	"github.com/modernizing/coca/pkg/application/api"
	"github.com/modernizing/coca/pkg/application/bs"
	"github.com/modernizing/coca/pkg/application/refactor/unused"
	"github.com/modernizing/coca/pkg/application/todo"
	"github.com/modernizing/coca/pkg/domain/core_domain"

	"verifharness/adapter/common"
	"verifharness/run"
)

type errCounter struct {
	*antlr.DefaultErrorListener
	n int
}

func (c *errCounter) SyntaxError(recognizer antlr.Recognizer, offendingSymbol interface{}, line, column int, msg string, e antlr.RecognitionException) {
	c.n++
}

// consumedAll parses text with coca's Java parser and reports whether the parser stopped at end of input.
// (compilationUnit's first alternative has no EOF: the parser silently stops at the first token that cannot
// start a type declaration. Such a text is not a sentence of the grammar although no error is reported.)
func consumedAll(text string) bool {
	ec := &errCounter{DefaultErrorListener: antlr.NewDefaultErrorListener()}
	lexer := parser.NewJavaLexer(antlr.NewInputStream(text))
	lexer.RemoveErrorListeners()
	lexer.AddErrorListener(ec)
	stream := antlr.NewCommonTokenStream(lexer, antlr.TokenDefaultChannel)
	p := parser.NewJavaParser(stream)
	p.RemoveErrorListeners()
	p.AddErrorListener(ec)
	p.CompilationUnit()
	return ec.n == 0 && stream.LA(1) == antlr.TokenEOF
}

// ResetParserCaches empties the prediction caches of coca's generated Java parser (the per-decision DFAs and
// the shared prediction-context cache, both process-global memo tables that only ever grow: about 0.6 MB per
// unusual file). They are reached through exported API only (a parser's Interpreter shares the static slice and
// the static cache object) and hold no results, so clearing them changes the memory of a long-lived worker
// and nothing else. Without it a worker of the thorough tier grows to several GB.
func ResetParserCaches() {
	p := parser.NewJavaParser(antlr.NewCommonTokenStream(parser.NewJavaLexer(antlr.NewInputStream("")), antlr.TokenDefaultChannel))
	in := p.GetInterpreter()
	dfas := in.DecisionToDFA()
	atn := in.ATN()
	for i := range dfas {
		dfas[i] = antlr.NewDFA(atn.DecisionToState[i], i)
	}
	*in.SharedContextCache() = *antlr.NewPredictionContextCache()
}

var casesInProcess int

// Housekeeping is called once per case: every resetEvery cases of this process the parser caches are emptied.
const resetEvery = 60

func Housekeeping() {
	casesInProcess++
	if casesInProcess%resetEvery == 0 {
		ResetParserCaches()
	}
}

// Accept is the parser-acceptance filter: common.JavaSyntaxErrors reports no error and the whole input
// was consumed. A panic inside the generated parser / the antlr runtime is reported separately.
func Accept(text string) (ok bool, why string, parserPanic string) {
	var ne int
	var first string
	all := false
	panicked, val, site := run.Guard(func() {
		ne, first = common.JavaSyntaxErrors(text)
		if ne == 0 {
			all = consumedAll(text)
		}
	})
	if panicked {
		return false, "parser panicked", "panic@" + site + ": " + val
	}
	if ne > 0 {
		return false, first, ""
	}
	if !all {
		return false, "parser stopped before end of input without reporting an error", ""
	}
	return true, "", ""
}

// PassResult is what one pass did on one directory.
type PassResult struct {
	Pass       string `json:"pass"`
	Panicked   bool   `json:"panicked,omitempty"`
	Value      string `json:"value,omitempty"`
	Site       string `json:"site,omitempty"`
	MarshalErr string `json:"marshal_error,omitempty"`
	Bytes      int    `json:"result_json_bytes"`
	Items      int    `json:"items"`
}

func (p PassResult) Sig() string {
	if p.Panicked {
		return "panic@" + p.Site + "/" + p.Pass
	}
	return "result-not-serialisable/" + p.Pass
}

func marshal(res *PassResult, v interface{}) {
	panicked, val, _ := run.Guard(func() {
		b, err := json.Marshal(v)
		if err != nil {
			res.MarshalErr = err.Error()
			return
		}
		res.Bytes = len(b)
	})
	if panicked {
		res.MarshalErr = "json.Marshal panicked: " + val
	}
}

var PassNames = []string{"identifier", "full", "bs", "api", "refactor", "todo"}

// RunPasses drives the six passes over dir through their public entry points, each under its own guard.
func RunPasses(dir string) (results []PassResult, ident, full []core_domain.CodeDataStruct) {
	one := func(name string, f func() (interface{}, int)) {
		res := PassResult{Pass: name}
		var v interface{}
		res.Panicked, res.Value, res.Site = run.Guard(func() { v, res.Items = f() })
		if !res.Panicked {
			marshal(&res, v)
		}
		results = append(results, res)
	}
	one("identifier", func() (interface{}, int) {
		ia := javaapp.NewJavaIdentifierApp()
		ident = ia.AnalysisPath(dir)
		return ident, len(ident)
	})
	one("full", func() (interface{}, int) {
		fa := javaapp.NewJavaFullApp()
		full = fa.AnalysisPath(dir, ident)
		return full, len(full)
	})
	one("bs", func() (interface{}, int) {
		app := bs.NewBadSmellApp()
		nodes := app.AnalysisPath(dir)
		smells := app.IdentifyBadSmell(nodes, nil)
		return map[string]interface{}{"nodes": nodes, "smells": smells}, len(*nodes)
	})
	one("api", func() (interface{}, int) {
		// wiring of `coca api -f`: identifiers -> maps, full pass result as parsed dependencies
		identMap := core_domain.BuildIdentifierMap(ident)
		diMap := core_domain.BuildDIMap(ident, identMap)
		app := new(api.JavaApiApp)
		apis := app.AnalysisPath(dir, full, identMap, diMap)
		return apis, len(apis)
	})
	one("refactor", func() (interface{}, int) {
		app := unused.NewRemoveUnusedImportApp(dir)
		nodes := app.Analysis() // Analysis only: Refactoring() rewrites files
		res := map[string]interface{}{"nodes": nodes}
		if len(nodes) > 0 {
			last := nodes[len(nodes)-1]
			res["fields"], res["imports"], res["methods"], res["pkg"] = last.GetFields(), last.GetImports(), last.GetMethods(), last.GetPkgInfo()
		}
		return res, len(nodes)
	})
	one("todo", func() (interface{}, int) {
		app := todo.NewTodoApp()
		todos := app.AnalysisPath(dir, []string{".java"})
		return todos, len(todos)
	})
	return
}

func short(s string, n int) string {
	s = strings.TrimSpace(s)
	if len(s) > n {
		for n > 0 && s[n]&0xC0 == 0x80 {
			n--
		}
		s = s[:n] + "…"
	}
	return strings.ReplaceAll(s, "\n", " / ")
}

var _ = fmt.Sprint
