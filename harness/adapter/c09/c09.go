// Package c09 checks that every pass (identifier, full, bad-smell, API scan, refactoring scan, todo scan)
// completes without a runtime panic on any valid Java source and returns a serialisable result, and that
// one unusual file never aborts the analysis of a whole project.
package c09

import (
	"io/ioutil"
	"os"
	"path/filepath"
	"runtime/debug"
	"sort"
	"strings"
	"sync"
	"time"

	"github.com/modernizing/coca/pkg/application/analysis/javaapp"
	"github.com/modernizing/coca/pkg/domain/core_domain"

	"verifharness/adapter/common"
	"verifharness/gen/javagen"
	"verifharness/gen/javawide"
	"verifharness/oracle"
	"verifharness/run"
)

func cases(tier string) int {
	if tier == "thorough" {
		return 40000
	}
	return 1500
}

func cliEvery(tier string) int {
	if tier == "thorough" {
		return 50
	}
	return 15
}

const grammarAttempts = 12

// report files each command of the CLI slice writes under coca_reporter/
var cliReports = map[string][]string{
	"analysis": {"identify.json", "deps.json"},
	"bs":       {"nodeInfos.json", "bs.json"},
	"api":      {"apis.json"},
	"todo":     {"simple-todos.json"},
}

var Check = &run.Check{
	ID:    "C09",
	Level: "exploration",
	Rule: "case = one 'unusual' Java file from G-JAVA-WIDE + 1-3 ordinary javagen files. Sources by case index mod 10: 0-5 (i) hand-written recursive generator over the Java-17 constructs of the shipped grammar " +
		"(enums with bodies, records, annotation types, sealed/permits, nested/inner/local/anonymous classes, generic methods/constructors, this()/super() calls, explicit generic invocation, inner creators, arrays, every statement form incl. " +
		"labelled/assert/synchronized/try-with-resources/old+arrow switch, switch expressions, pattern instanceof, all lambda parameter shapes, all method-reference forms, casts, ternaries, all literal kinds incl. text blocks, annotations in " +
		"every position/argument form incl. one-character constants and type annotations on qualified types, initialisers, non-ASCII identifiers/literals, raw control / non-character / unassigned supplementary characters inside string and char literals (also as call arguments) and comments, classes that extend a same-named class of another package and call inherited methods through super, Spring-style mappings, TODO/FIXME comments; a quarter of them re-laid-out by the token rewriter); " +
		"6-7 (ii) random sentences of compilationUnit derived from the rule text of JavaParser.g4/JavaLexer.g4 read at run time (depth budget over a shortest-derivation table, at most " + "12" + " sentences tried per case until one is accepted); " +
		"8-9 (iii) the .java files under _fixtures in rotation under token-level rewrites (re-layout between tokens, comment insertion, consistent renaming of one identifier). Only files accepted by coca's own parser " +
		"(common.JavaSyntaxErrors == 0; for (ii) additionally: the parser consumed the whole input) are run. Observed per accepted file under recover(): identifier pass, full pass, bad-smell pass (AnalysisPath + IdentifyBadSmell), API scan, " +
		"refactoring scan (Analysis only), todo scan: each must return and json.Marshal(result) must succeed; project level: unusual + ordinary files in one directory through JavaIdentifierApp/JavaFullApp.AnalysisPath must return and contain every " +
		"ordinary type; every Nth case through `coca analysis|bs|api -f|todo -p DIR` (exit 0, no panic trace, every report file of the command present, non-empty and valid JSON). Expression depth <= 6, file <= 400 lines. " +
		"non-trivial = the file uses >= 3 construct families outside the conventional subset of C01/C02 (recorded by the generator for (i), detected on tokens for (ii)/(iii)); distinct = hash of the multiset of those families (counts capped at 3)",
	Assumptions: []string{
		"a text counts only if coca's own Java parser accepts it; rejected texts are inconclusive. The < 2 % bound on rejects applies to sources (i) and (iii); sentences of source (ii) that the parser rejects (keyword-like identifiers, precedence climbing, comment/text-block terminators produced by chance) are counted separately (counters src_grammar_*) and a case of (ii) is inconclusive only if none of its 12 sentences is accepted",
		"source (ii) samples the context-free rule text: some accepted sentences are not valid Java for javac (e.g. 'implements int'); they are sentences of the grammar the tool ships, which is what the quantifier names",
		"crashes are de-duplicated by panic@<first coca frame>/<pass>; a worker death (fatal error, stack overflow, os.Exit) is attributed to the case by the coordinator",
		"listener state that survives from one file to the next inside a process (package-level variables in coca) is part of the execution; a reported witness is the complete file text, and the replay runs it in a fresh process",
		"only termination-by-return and serialisability are asserted; what the passes report for unusual constructs is not",
		"every 60 cases a worker empties the prediction caches of coca's generated Java parser (process-global memo tables reached through exported antlr API; they hold no results) so that a long-lived worker stays below ~300 MB; the CLI slice runs the untouched binary",
		"the construct-family detector used for sources (ii)/(iii) is a token-level heuristic; it feeds the non-triviality rule and the shape hash only",
	},
	Cases: cases,
	Floor: func(tier string) int {
		if tier == "thorough" {
			return 3000
		}
		return 200
	},
	Run:        runCase,
	MaxSamples: 4,
	// termination clause: a case that exceeds 90 s in the worker is re-run alone for up to 180 s; if it is then still
	// running after >= 25 s of CPU time, it is reported as no-termination with the stacks of the goroutines inside
	// coca; otherwise the watchdog firing is inconclusive. The threshold is CPU time of the child, so machine load does
	// not count towards it: the heaviest legitimate case (ten parses of a 400-line file, cold prediction caches) needs
	// about 2-5 s of CPU, typical ones well under a second (see cases_taking_*). 25 s rather than 75 s because on a
	// machine that is oversubscribed 5-10x (other checks running) a spinning child is given less than 75 s of CPU
	// within its 180 s of wall clock, and the hang would be filed as inconclusive (seen with seeds C09-8 / C09-14).
	CaseWatchdog: 90 * time.Second,
	HangCPU:      25 * time.Second,
}

var gcOnce sync.Once

func repoDir() string {
	if d := os.Getenv("VERIF_REPO_DIR"); d != "" {
		return d
	}
	return "/repo"
}

var (
	fixturesOnce sync.Once
	fixtureList  []string
)

func fixtures() []string {
	fixturesOnce.Do(func() {
		root := filepath.Join(repoDir(), "_fixtures")
		filepath.Walk(root, func(p string, fi os.FileInfo, err error) error {
			if err == nil && fi.Mode().IsRegular() && strings.HasSuffix(p, ".java") {
				rel, _ := filepath.Rel(root, p)
				fixtureList = append(fixtureList, filepath.ToSlash(rel))
			}
			return nil
		})
		sort.Strings(fixtureList)
	})
	return fixtureList
}

var ordinaryOpts = javagen.Opts{MinFiles: 1, MaxFiles: 3, MaxMethods: 4, MaxParams: 3, MaxFields: 2, Interfaces: true, Generics: true, Annotations: true, Ctors: true,
	Bodies: true, MaxStmts: 3, MaxSites: 4, Lambdas: true, FixedLayout: "flat"}

func sourceOf(index int) string {
	switch m := index % 10; {
	case m <= 5:
		return "handwritten"
	case m <= 7:
		return "grammar"
	default:
		return "fixture"
	}
}

// unusual builds the unusual file of a case; nil means: no accepted text (outcome already marked).
func unusual(c *run.Ctx, o *run.Outcome) *javawide.File {
	src := sourceOf(c.Index)
	o.Count("src_"+src+"_cases", 1)
	switch src {
	case "grammar":
		g, err := javawide.LoadGrammar(repoDir())
		if err != nil {
			o.SetInconclusive("cannot read the shipped grammar: " + err.Error())
			return nil
		}
		for try := 0; try < grammarAttempts; try++ {
			f := javawide.Grammatical(c.Rng.Fork(), g)
			o.Count("src_grammar_sentences", 1)
			ok, why, pp := Accept(f.Text)
			if pp != "" {
				o.Witness = map[string]interface{}{"source": src, "note": f.Note, "text": f.Text}
				o.Violate(strings.SplitN(pp, ":", 2)[0]+"/parser", "coca's Java parser panicked on a sampled sentence: %s", pp)
				return nil
			}
			if ok {
				o.Count("src_grammar_accepted", 1)
				return f
			}
			o.Count("src_grammar_rejected", 1)
			o.Seen("grammar_reject_reasons", short(why, 60))
		}
		o.Count("src_grammar_cases_without_accepted_sentence", 1)
		o.SetInconclusive("none of the sampled grammar sentences was accepted by coca's parser")
		return nil
	case "fixture":
		list := fixtures()
		if len(list) == 0 {
			o.SetInconclusive("no .java files under " + repoDir() + "/_fixtures")
			return nil
		}
		k := (c.Index/10)*2 + (c.Index%10 - 8)
		rel := list[k%len(list)]
		b, err := ioutil.ReadFile(filepath.Join(repoDir(), "_fixtures", filepath.FromSlash(rel)))
		if err != nil {
			o.SetInconclusive("cannot read fixture " + rel)
			return nil
		}
		orig := string(b)
		text, note := javawide.Rewrite(c.Rng.Fork(), orig, 0)
		f := &javawide.File{Source: src, Text: text, Note: "_fixtures/" + rel + ": " + note, Families: javawide.DetectFamilies(text)}
		o.Seen("fixtures_used", rel)
		return filter(c, o, f, orig)
	default:
		f := javawide.Handwritten(c.Rng.Fork())
		if c.Rng.Chance(1, 4) {
			kinds := c.Rng.PickInt(1, 2, 3)
			text, note := javawide.Rewrite(c.Rng.Fork(), f.Text, kinds)
			f.Text, f.Note = text, "rewritten: "+note
			o.Count("src_handwritten_rewritten", 1)
		}
		return filter(c, o, f, "")
	}
}

// filter applies the parser-acceptance filter to a text of source (i) or (iii).
func filter(c *run.Ctx, o *run.Outcome, f *javawide.File, original string) *javawide.File {
	var ne int
	var first string
	panicked, val, site := run.Guard(func() { ne, first = common.JavaSyntaxErrors(f.Text) })
	if panicked {
		o.Witness = map[string]interface{}{"source": f.Source, "note": f.Note, "text": f.Text}
		o.Violate("panic@"+site+"/parser", "coca's Java parser panicked: %s", val)
		return nil
	}
	if ne > 0 {
		o.Count("src_"+f.Source+"_rejected", 1)
		why := "generated file rejected by coca's Java parser: "
		if original != "" {
			if n0, _ := common.JavaSyntaxErrors(original); n0 > 0 {
				why = "fixture is rejected by coca's Java parser as it stands (" + f.Note[:strings.Index(f.Note, ":")] + "): "
				o.Count("src_fixture_rejected_already_unchanged", 1)
			} else {
				why = "rewritten fixture rejected although the unchanged fixture is accepted: "
			}
		}
		o.SetInconclusive(why + short(first, 120))
		if c.Replay {
			o.Witness = map[string]interface{}{"source": f.Source, "note": f.Note, "text": f.Text}
		}
		return nil
	}
	o.Count("src_"+f.Source+"_accepted", 1)
	return f
}

func runCase(c *run.Ctx, o *run.Outcome) {
	gcOnce.Do(func() { debug.SetGCPercent(150) })
	Housekeeping()
	// how long the cases of this run took (wall clock, in the worker): the margin of the termination verdict below
	t0 := time.Now()
	defer func() {
		d := time.Since(t0).Seconds()
		b := "<1s"
		switch {
		case d >= 60:
			b = ">=60s"
		case d >= 20:
			b = "<60s"
		case d >= 5:
			b = "<20s"
		case d >= 1:
			b = "<5s"
		}
		o.Seen("case_wall_time_buckets", b)
		o.Count("cases_taking_"+b, 1)
	}()
	f := unusual(c, o)
	if f == nil {
		return
	}
	lines := javawide.Lines(f.Text)
	o.Count("lines_total", lines)
	if lines > 400 {
		o.Count("files_over_400_lines", 1)
	}
	nf := 0
	for k := range f.Families {
		nf++
		o.Seen("families", k)
	}
	o.NonTrivial = nf >= 3
	o.Shape = run.ShapeHash(javawide.FamilyKey(f.Families))
	if o.NonTrivial {
		o.Count("src_"+f.Source+"_nontrivial", 1)
	}

	// --- the unusual file alone, through the six passes
	base := c.Rng.Pick([]string{"Aaa0Unusual", "Mmm0Unusual", "Zzz0Unusual", "Ünusual0"})
	oneDir := filepath.Join(c.Scratch(), "one")
	os.MkdirAll(oneDir, 0o755)
	if err := ioutil.WriteFile(filepath.Join(oneDir, base+".java"), []byte(f.Text), 0o644); err != nil {
		o.SetInconclusive("cannot write scratch file: " + err.Error())
		return
	}
	witness := map[string]interface{}{"source": f.Source, "note": f.Note, "file_name": base + ".java", "text": f.Text, "families": f.Families}
	o.Witness = witness
	results, _, _ := RunPasses(oneDir)
	witness["passes"] = results
	for _, r := range results {
		o.Count("pass_runs", 1)
		switch {
		case r.Panicked:
			o.Count("pass_panics", 1)
			o.Violate(r.Sig(), "%s pass panicked on an accepted file (source %s): %s", r.Pass, f.Source, r.Value)
		case r.MarshalErr != "":
			o.Violate(r.Sig(), "result of the %s pass cannot be serialised: %s", r.Pass, r.MarshalErr)
		default:
			o.Count("pass_returned_and_serialised", 1)
			if r.Items > 0 {
				o.Count("pass_"+r.Pass+"_nonempty_results", 1)
			}
		}
	}

	// --- project level: the unusual file next to ordinary files
	p := javagen.Generate(c.Rng.Fork(), ordinaryOpts)
	ordinaryOK := javagen.SelfCheck(p) == nil
	for _, of := range p.Files {
		if of.Type == nil {
			continue
		}
		if ne, _ := common.JavaSyntaxErrors(of.Text); ne > 0 {
			ordinaryOK = false
		}
	}
	projDir := filepath.Join(c.Scratch(), "proj")
	if ordinaryOK {
		if _, err := common.WriteProject(projDir, p); err != nil {
			ordinaryOK = false
		}
	}
	if !ordinaryOK {
		o.Count("project_skipped_ordinary_files_unusable", 1)
	} else {
		ioutil.WriteFile(filepath.Join(projDir, base+".java"), []byte(f.Text), 0o644)
		files := map[string]string{}
		for _, of := range p.Files {
			files[of.RelPath] = of.Text
		}
		witness["ordinary_files"] = files
		o.Count("project_runs", 1)
		o.Count("project_ordinary_files", len(p.Files))
		var ident, full []core_domain.CodeDataStruct
		identDone, fullDone := false, false
		panicked, val, site := run.Guard(func() {
			ia := javaapp.NewJavaIdentifierApp()
			ident = ia.AnalysisPath(projDir)
			identDone = true
			fa := javaapp.NewJavaFullApp()
			full = fa.AnalysisPath(projDir, ident)
			fullDone = true
		})
		if panicked {
			pass := "project-identifier"
			if identDone {
				pass = "project-full"
			}
			o.Violate("panic@"+site+"/"+pass, "analysis of a project of one unusual and %d ordinary files aborted: %s", len(p.Files), val)
		}
		check := func(pass string, done bool, nodes []core_domain.CodeDataStruct) {
			if !done {
				return
			}
			have := map[string]bool{}
			for _, n := range nodes {
				have[n.Package+"."+n.NodeName] = true
			}
			for _, of := range p.Files {
				if of.Type == nil || of.Role != javagen.RoleMain {
					continue
				}
				o.Count("project_ordinary_types_expected", 1)
				if have[of.Pkg+"."+of.Type.Name] {
					o.Count("project_ordinary_types_present", 1)
				} else {
					o.Violate("project/ordinary-type-missing/"+pass, "%s pass over a project with one unusual file (%s) lost ordinary type %s.%s (%s)", pass, base+".java", of.Pkg, of.Type.Name, of.RelPath)
				}
			}
		}
		check("identifier", identDone, ident)
		check("full", fullDone, full)

		// --- CLI slice
		if c.CocaBin != "" && c.Index%cliEvery(c.Tier) == 0 {
			o.Count("cli_cases", 1)
			cwd := filepath.Join(c.Scratch(), "cli")
			os.MkdirAll(cwd, 0o755)
			analysisOK := false
			for _, cmd := range [][]string{{"analysis", "-p", projDir}, {"bs", "-p", projDir}, {"api", "-f", "-p", projDir}, {"todo", "-p", projDir}} {
				if cmd[0] == "api" && !analysisOK {
					o.Count("cli_api_skipped_no_deps", 1)
					continue
				}
				// coca starts a CPU profile into a fresh $TMPDIR/profile*/ on every invocation and leaves it behind:
				// keep it inside the scratch directory of the case
				res := common.RunCLI(c.CocaBin, cwd, []string{"TMPDIR=" + cwd}, cmd...)
				o.Count("cli_commands", 1)
				if res.TimedOut {
					o.Count("cli_watchdog", 1)
					continue
				}
				sig := oracle.NoCrashCLIVerdict(cmd[0], res.ExitCode, res.Stderr, "github.com/modernizing/coca/")
				switch {
				case sig != "":
					o.Violate(sig, "`coca %s` exit %d: %s", strings.Join(cmd[:len(cmd)-1], " "), res.ExitCode, short(res.Stderr+" "+tail(res.Stdout, 200), 300))
				default:
					o.Count("cli_commands_ok", 1)
					if cmd[0] == "analysis" {
						analysisOK = true
					}
					// the report files of the command: present, non-empty, valid JSON (the commands ignore Marshal errors
					// and would write an empty file)
					for _, rf := range cliReports[cmd[0]] {
						o.Count("cli_report_files_checked", 1)
						if bad := oracle.NoCrashReportFile(filepath.Join(cwd, "coca_reporter", rf)); bad != "" {
							o.Violate("cli-report-"+bad+"/"+cmd[0]+"/"+rf, "`coca %s` exit 0 but coca_reporter/%s is %s: the result was not serialised", strings.Join(cmd[:len(cmd)-1], " "), rf, bad)
						} else {
							o.Count("cli_report_files_valid_json", 1)
						}
					}
				}
			}
		}
	}

	if c.Index < 64 {
		smp := map[string]interface{}{"source": f.Source, "note": f.Note, "families": f.Families, "lines": lines, "passes": results}
		if len(f.Text) < 3000 {
			smp["text"] = f.Text
		} else {
			smp["text_head"] = f.Text[:cut(f.Text, 1500)]
		}
		o.Sample = smp
	}
}

// cut returns an index <= n that does not split a UTF-8 sequence.
func cut(s string, n int) int {
	if n >= len(s) {
		return len(s)
	}
	for n > 0 && s[n]&0xC0 == 0x80 {
		n--
	}
	return n
}

func tail(s string, n int) string {
	if len(s) <= n {
		return s
	}
	i := len(s) - n
	for i < len(s) && s[i]&0xC0 == 0x80 {
		i++
	}
	return s[i:]
}
