interface I { synchronized void m(); }
