class A { void m(A this) { } }
