class A { A() { this(1); } A(int x) { super(); } }
