@RestController class A { @RequestMapping(value = A, method = RequestMethod.GET) String m() { return ""; } }
