package app;

public class Service extends lib.Service<String> {
    public void restart() {
        super.stop();
        super.start();
    }
}
