class A { void m() { @Deprecated final int x = 1; } }
