class A { java.lang.@NonNull String m() { return null; } }
