@RestController @RequestMapping(A) class C { }
