class A { void m() { var x = 1; } }
