class A implements int[] { }
