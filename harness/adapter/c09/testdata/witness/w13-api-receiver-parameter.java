@RestController class A { @GetMapping("/x") String m(A this) { return ""; } }
