package demo;

public class Labels {
    private Printer printer;

    public void show() {
        printer.print("ab", '', "🏴󠁧󠁢󠁥󠁮󠁧󠁿"); // TODO:  raw
    }
}
