class A { java.lang.@NonNull String s; }
