class A { void m() { this(1).foo(); } }
