@RestController class A { @GetMapping("/x") String m(java.lang.@NonNull String s) { return s; } }
