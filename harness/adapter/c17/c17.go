// Package c17 drives coca's todo scan (todo.TodoApp.AnalysisPath in-process, `coca todo -p DIR -e exts` for every Nth
// case) over generated directory trees and checks the report against the comments the generator planted.
package c17

import (
	"encoding/json"
	"io/ioutil"
	"os"
	"path/filepath"
	"sort"
	"strconv"
	"strings"

	"github.com/modernizing/coca/pkg/application/todo"
	"github.com/modernizing/coca/pkg/application/todo/astitodo"

	"verifharness/adapter/common"
	"verifharness/gen/commentgen"
	"verifharness/oracle"
	"verifharness/run"
)

// cases: a case is one directory tree of 2..8 files (mean 5): quick 320 trees ~ 1 600 files, thorough 8 320 ~ 41 600.
// 320 = 10 x 32 and 8 320 = 260 x 32, so every subset of the 5-extension list is used equally often.
func cases(tier string) int {
	if tier == "thorough" {
		return 33280
	}
	return 2560
}

// cliEvery is odd, so the CLI slice walks through all extension subsets as well.
func cliEvery(tier string) int {
	if tier == "thorough" {
		return 61 // ~550 CLI runs
	}
	return 37 // ~70 CLI runs
}

var Check = &run.Check{
	ID:    "C17",
	Level: "exploration",
	Rule: "case = directory tree of 2-8 files (nested directories; extensions from {.java,.py,.go,.ts,.js}, 12 unrelated others and 7 look-alikes that end in the letters of a selected one (.mjs .cjs .ipy .mts .cts .cgo .sjava); 1 in 10 files CRLF, 1 in 40 empty, 1 in 64 with a first line of 65536..74536 bytes (minified code / string literal / plain comment) free of marker words, 1 in 12 ending in an unterminated `/*`) " +
		"whose lines are assembled from code tokens (identifiers incl. TODO/FIXME, numbers, operators incl. / and *), string / char / back-tick literals containing //, /*, */, #, escapes and the word TODO, " +
		"and line / block / hash comments generated from a grammar: empty, blanks only, one character, plain text, marker later in the text (after a word, glued to 1-2 characters, after punctuation, mid-line of a later block line, directly after a character that opens another kind of comment: `//# FIXME`, `#/ TODO`, `#* TODO`, `#// todo`, `/*# todo */`, `/*/ fixme */`), " +
		"and marker comments = [blanks] (TODO|FIXME in 10 letter-case variants) followed by nothing | ':' | blank msg | ':' msg | ': ' msg | '(name)' | '(name):' | '(name) ' msg | '(name): ' msg | '(name):' msg, " +
		"block comments optionally multi-line with or without ' * ' decoration, 1 in 4 of the multi-line-capable ones with 1-3 line breaks between `/*` and the marker word (start line = opener's line); crash-only marker comments whose text after the marker (and optional colon/blanks) opens a '(' that is never closed in the comment (`// TODO (rework the`, `/* FIXME: (half */`, `# todo(`; entry optional, a panic is a violation); comments alone on a line, after code (glued or not), between tokens, two on one line; " +
		"filter = subset number (index mod 32) of the 5-extension list, 1 in 4 with an entry repeated and/or a two-part extension added (.d.ts .spec.ts .min.js .spec.js .test.py .pb.go .gen.java; 1 in 5 of the selected-extension files carries one), a file named by two entries is one file; executed through todo.TodoApp.AnalysisPath(dir, exts) in-process (1 in 6 with the directory named dir/zzcwd/.., 1 in 6 dir/) and through `coca todo -p DIR -e exts` (simple-todos.json parsed strictly, count line and table) for every Nth case, DIR spelled in rotation abs | abs/ | rel | ./rel | rel/ | . | .. | sub/.. | ../src from the matching working directory, every second CLI case preceded by a `coca todo` run over a larger tree in the SAME working directory (stale coca_reporter); files also live under dot-directories (.github/, .config/tool/, a/.hidden/) and carry dot names (.eslintrc.js); " +
		"oracle: multiset of (file, start line, assignee, message with '*' and blank runs collapsed) == planted marker comments of the selected files; " +
		"non-trivial = at least 2 planted marker comments in selected files and at least one decoy carrying the marker word (literal, later mention, identifier) in a selected file; " +
		"distinct = hash of (per file: extension + sequence of element shapes, subset number, boundary)",
	Assumptions: []string{
		"the comment marker is exactly `//`, `/*` or `#`; Javadoc `/** TODO` / ` * TODO`, a marker word at the start of a continuation line after other text (line breaks directly between `/*` and the marker word count as blanks and ARE generated), doubled markers of the same kind (`////`, `///`, `##`, `//*`) are not generated (the statement does not settle them); a line comment whose text begins with '#', a hash comment whose text begins with '/' or '*' and a block comment whose text begins with '#' or '/' are plain 'mention later' decoys",
		"a marker is followed by end of text, a blank, ':' or '(name)' only: `TODOS`, `TODO-x`, `TODO :`, `TODO (x)`, `TODO()`, `TODO::`, messages starting with '(' or ':' are not generated as asserted entries (a marker followed by an unclosed '(' is generated as a crash-only shape whose entry is free); names are ASCII letters, digits, . _ - @",
		"char literals are Java-style (one character or one escape); single-quoted strings, unterminated strings, backslashes in back-tick literals and `//` as an operator are not generated",
		"an unterminated `/* TODO …` at end of file may or may not be reported (only 'no crash' is stated); nothing but plain words follows an unterminated `/*`",
		"messages are compared after replacing '*' by a blank and collapsing white space; the empty filter is exercised in-process only (`-e \"\"` is not obviously 'no extension')",
		"file and directory names do not contain 'testData' and no .gitignore is present (both switch coca's file walker into other modes)",
	},
	Cases: cases,
	Floor: func(tier string) int {
		if tier == "thorough" {
			return 2000
		}
		return 80
	},
	Run: runCase,
}

func subset(mask int, r *run.Rand) []string {
	var out []string
	for _, i := range r.Perm(len(commentgen.Exts)) {
		if mask&(1<<uint(i)) != 0 {
			out = append(out, commentgen.Exts[i])
		}
	}
	return out
}

type jsonTodo struct {
	Assignee string
	Filename string
	Line     int
	Message  string
}

func rel(base, name string) string {
	name = filepath.ToSlash(name)
	base = filepath.ToSlash(base)
	if strings.HasPrefix(name, base+"/") {
		return name[len(base)+1:]
	}
	return name
}

// panicSite extracts the first coca frame of a Go panic trace on stderr.
func panicSite(stderr string) string {
	lines := strings.Split(stderr, "\n")
	for _, l := range lines {
		l = strings.TrimSpace(l)
		if strings.HasPrefix(l, "github.com/modernizing/coca/") {
			if j := strings.LastIndex(l, "("); j > 0 {
				l = l[:j]
			}
			return strings.TrimPrefix(l, "github.com/modernizing/coca/")
		}
	}
	return "?"
}

func firstLine(s string) string {
	s = strings.TrimSpace(s)
	if i := strings.Index(s, "\n"); i > 0 {
		s = s[:i]
	}
	if len(s) > 300 {
		s = s[:300]
	}
	return s
}

// tableRows reads the (Filename, Line) cells of the first display line of every row of the table printed by
// `coca todo` (continuation lines of wrapped messages have an empty Line cell).
func tableRows(stdout string) (count int, rows []string, ok bool) {
	count = -1
	for _, l := range strings.Split(stdout, "\n") {
		l = strings.TrimRight(l, "\r")
		if strings.HasPrefix(l, "Todos Count ") {
			n, err := strconv.Atoi(strings.TrimSpace(strings.TrimPrefix(l, "Todos Count ")))
			if err == nil {
				count = n
			}
			continue
		}
		if !strings.HasPrefix(l, "|") || strings.HasPrefix(l, "|--") {
			continue
		}
		cells := strings.Split(l, "|")
		if len(cells) < 6 {
			continue
		}
		file := strings.TrimSpace(cells[1])
		line := strings.TrimSpace(cells[len(cells)-2])
		if file == "FILENAME" || line == "" {
			continue
		}
		if _, err := strconv.Atoi(line); err != nil {
			continue
		}
		rows = append(rows, file+":"+line)
	}
	return count, rows, count >= 0
}

func runCase(c *run.Ctx, o *run.Outcome) {
	r := c.Rng
	mask := c.Index % 32
	exts := subset(mask, r.Fork())
	tree := commentgen.Generate(r.Fork(), r.Range(2, 8))
	// 1 in 4 filters also lists an extension twice and/or a two-part extension (.d.ts, .min.js, ...) next to or instead
	// of its last part: a file that two entries name is still one file
	if fr := r.Fork(); fr.Chance(1, 4) {
		insert := func(e string) {
			at := fr.Intn(len(exts) + 1)
			exts = append(exts[:at], append([]string{e}, exts[at:]...)...)
		}
		dup := len(exts) > 0 && fr.Bool()
		if dup {
			insert(exts[fr.Intn(len(exts))])
		}
		if !dup || fr.Bool() {
			// prefer a two-part extension that a file of this tree carries
			var present []string
			for i := range tree.Files {
				for _, ce := range commentgen.CompoundExts {
					if tree.Files[i].Ext == ce {
						present = append(present, ce)
					}
				}
			}
			ce := fr.Pick(commentgen.CompoundExts)
			if len(present) > 0 && fr.Chance(3, 4) {
				ce = fr.Pick(present)
			}
			insert(ce)
		}
	}
	twice, overlap := 0, 0
	for i, a := range exts {
		for j, b := range exts {
			if i < j && a == b {
				twice = 1
			} else if i != j && a != b && strings.HasSuffix(a, b) {
				overlap = 1
			}
		}
	}
	o.Count("filters_listing_an_extension_twice", twice)
	o.Count("filters_with_one_entry_a_suffix_of_another", overlap)
	useCLI := c.CocaBin != "" && len(exts) > 0 && c.Index%cliEvery(c.Tier) == 0

	dir := c.Scratch()
	src := filepath.Join(dir, "src")
	truth := &oracle.TodoTruth{Selected: map[string]bool{}, Unselected: map[string]bool{}, NamedTwice: map[string]bool{}}
	markerDecoys := 0
	required := 0
	var sampleFile *commentgen.File
	for i := range tree.Files {
		f := &tree.Files[i]
		p := filepath.Join(src, filepath.FromSlash(f.Rel))
		os.MkdirAll(filepath.Dir(p), 0o755)
		if err := ioutil.WriteFile(p, []byte(f.Text), 0o644); err != nil {
			o.SetInconclusive("cannot write case file: " + err.Error())
			return
		}
		o.Count("files", 1)
		if f.CRLF {
			o.Count("files_crlf", 1)
		}
		if f.Text == "" {
			o.Count("files_empty", 1)
		}
		if !commentgen.Selected(f, exts) {
			truth.Unselected[f.Rel] = true
			o.Count("files_with_other_extension", 1)
			if f.Lookalike {
				// .mjs/.cjs/.ipy/.mts/.cts/.cgo/.sjava: counted only when the look-alike's base extension IS in the filter
				for _, e := range exts {
					if strings.HasSuffix(f.Ext, e[1:]) {
						o.Count("lookalike_files_next_to_their_selected_extension", 1)
						o.Count("marker_comments_in_lookalike_files", len(f.Planted))
						o.Seen("lookalike_extensions", f.Ext+"~"+e)
						break
					}
				}
			}
			o.Count("marker_comments_in_unselected_files", len(f.Planted))
			continue
		}
		truth.Selected[f.Rel] = true
		o.Count("files_selected", 1)
		if commentgen.FilterHits(f, exts) >= 2 {
			truth.NamedTwice[f.Rel] = true
			o.Count("selected_files_named_by_two_filter_entries", 1)
			o.Count("marker_comments_in_files_named_by_two_filter_entries", len(f.Planted))
		}
		if len(f.Ext) > 1 && strings.Count(f.Ext, ".") == 2 && f.Ext != ".java.bak" {
			o.Count("selected_files_with_two_part_extension", 1)
		}
		if strings.HasPrefix(f.Rel, ".") || strings.Contains(f.Rel, "/.") {
			o.Count("selected_files_under_dot_directories_or_dot_named", 1)
			o.Count("marker_comments_under_dot_paths", len(f.Planted))
		}
		if f.LongLine > 0 {
			o.Count("selected_files_with_first_line_over_64KiB", 1)
			o.Count("marker_comments_below_a_64KiB_line", len(f.Planted))
			if f.LongLine == 65536 || f.LongLine == 65537 {
				o.Count("long_lines_at_the_64KiB_boundary", 1)
			}
		}
		for _, p := range f.Planted {
			truth.Expect = append(truth.Expect, oracle.TodoExpect{File: f.Rel, Line: p.Line, Kind: p.Kind, Form: p.Form, Tight: p.Tight, Multi: p.Multi, MarkerLineOffset: p.MarkerLineOffset,
				Optional: p.Optional, Assignee: p.Assignee, Message: p.Message, Src: p.Src})
			if p.Optional {
				if p.Form == "unclosed-paren" {
					o.Count("crash_only/unclosed_paren_after_marker(optional)", 1)
					o.Count("crash_only/unclosed_paren/"+p.Kind, 1)
				} else {
					o.Count("unterminated_marker_comments(optional)", 1)
				}
				continue
			}
			required++
			o.Count("planted/"+p.Kind, 1)
			if p.Multi {
				o.Count("planted_multi_line_block", 1)
			}
			if p.MarkerLineOffset > 0 {
				o.Count("planted_block_opener_alone(marker_on_later_line)", 1)
			}
			if p.Assignee != "" {
				o.Count("planted_with_assignee", 1)
			}
			if p.Line == 1 {
				o.Count("planted_at_line_1", 1)
			}
			o.Seen("marker_forms", p.Kind+"/"+p.Form)
			o.Seen("marker_spellings", p.Marker)
			if sampleFile == nil && len(f.Text) < 500 {
				sampleFile = f
			}
		}
		for _, d := range f.Decoys {
			truth.Decoys = append(truth.Decoys, oracle.TodoDecoy{File: f.Rel, Line: d.Line, What: d.What, Src: d.Src})
			cat := d.What
			if i := strings.Index(cat, "/"); i > 0 {
				cat = cat[:i]
			}
			o.Count("decoys/"+cat, 1)
			o.Seen("decoy_shapes", d.What)
			if strings.HasSuffix(d.What, "/opener-char") {
				o.Count("decoys_later_after_other_comment_opener", 1)
				o.Seen("opener_char_decoys", d.Src[:strings.IndexAny(d.Src+"T", "TtFf \t")])
			}
			if strings.HasPrefix(d.What, "later/") || strings.HasSuffix(d.What, "+marker") || d.What == "code-ident" {
				markerDecoys++
			}
		}
	}
	o.Count("events_planted", required)
	o.Seen("ext_subsets", strconv.Itoa(mask))
	o.Shape = run.ShapeHash(tree.ShapeKey(), mask, useCLI)
	o.NonTrivial = required >= 2 && markerDecoys >= 1

	witness := map[string]interface{}{"exts": exts, "files": tree.Files, "boundary": "todo.TodoApp.AnalysisPath"}
	o.Witness = witness

	var observed []oracle.TodoEntry
	rootKind := "plain"
	if useCLI {
		o.Count("cli_cases", 1)
		nth := c.Index / cliEvery(c.Tier)
		// the scanned directory is named in one of nine legal ways (absolute, relative, ".", "..", "sub/..", "../src", trailing slash)
		cwd, arg, kind := common.SpellRoot(nth, src, dir)
		rootKind = kind
		o.Count("cli_root_spelled_"+kind, 1)
		o.Seen("cli_root_spellings", kind)
		args := []string{"todo", "-p", arg, "-e", strings.Join(exts, ",")}
		witness["boundary"] = "coca " + strings.Join(args, " ") + "   (cwd " + strings.TrimPrefix(cwd, dir) + ", root spelled " + kind + ")"
		secondRun := nth%2 == 0
		if secondRun {
			// the report directory is not fresh: an earlier `coca todo` in the SAME working directory scanned a larger tree
			// (this case's files twice over plus one more TODO), so its simple-todos.json is longer than the one asserted
			first := filepath.Join(dir, "first")
			for i := range tree.Files {
				f := &tree.Files[i]
				for _, sub := range []string{"", "dup"} {
					p := filepath.Join(first, sub, filepath.FromSlash(f.Rel))
					os.MkdirAll(filepath.Dir(p), 0o755)
					ioutil.WriteFile(p, []byte(f.Text), 0o644)
				}
			}
			ioutil.WriteFile(filepath.Join(first, "zzextra"+exts[0]), []byte("// TODO(first): entry of the earlier run only\n/* FIXME: and another one of the earlier run */\n"), 0o644)
			pre := runCLI(c.CocaBin, cwd, "todo", "-p", first, "-e", strings.Join(exts, ","))
			if pre.TimedOut {
				o.SetInconclusive("cli watchdog")
				return
			}
			if fi, err := os.Stat(filepath.Join(cwd, "coca_reporter", "simple-todos.json")); err == nil {
				o.Count("cli_second_run_in_same_cwd", 1)
				o.Count("cli_bytes_of_earlier_report", int(fi.Size()))
				witness["earlier_run_in_same_cwd"] = "coca todo -p " + first + " -e " + strings.Join(exts, ",")
			} else {
				secondRun = false
			}
		}
		how := "@root:" + kind
		if secondRun {
			how += "+second-run-in-same-cwd"
		}
		res := runCLI(c.CocaBin, cwd, args...)
		if res.TimedOut {
			o.SetInconclusive("cli watchdog")
			return
		}
		if strings.Contains(res.Stderr, "panic:") || strings.Contains(res.Stderr, "fatal error:") {
			o.Count("panics", 1)
			o.Violate("panic@"+panicSite(res.Stderr), "`coca todo` crashed (exit %d, root spelled %s): %s", res.ExitCode, kind, firstLine(res.Stderr[strings.Index(res.Stderr, "panic:")+0:]))
			return
		}
		if res.ExitCode != 0 {
			o.Violate("cli-exit"+how, "`coca todo` exit %d: %s", res.ExitCode, firstLine(res.Stderr))
			return
		}
		b, err := ioutil.ReadFile(filepath.Join(cwd, "coca_reporter", "simple-todos.json"))
		if err != nil {
			o.Violate("cli-no-output"+how, "`coca todo` wrote no simple-todos.json: %v", err)
			return
		}
		var js []jsonTodo
		if err := json.Unmarshal(b, &js); err != nil {
			// json.Unmarshal is strict about the whole file: anything after the top-level value is an error
			sig := "cli-json-malformed"
			if secondRun {
				sig = "cli-json-malformed/second-run-in-same-cwd"
			}
			tail := string(b)
			if len(tail) > 160 {
				tail = "…" + tail[len(tail)-160:]
			}
			o.Violate(sig, "simple-todos.json (%d bytes, root spelled %s) does not parse: %v; end of file: %q", len(b), kind, err, tail)
			return
		}
		var jsonRows []string
		for _, t := range js {
			observed = append(observed, oracle.TodoEntry{File: rel(src, common.AbsFrom(cwd, t.Filename)), Line: t.Line, Assignee: t.Assignee, Message: t.Message})
			jsonRows = append(jsonRows, t.Filename+":"+strconv.Itoa(t.Line))
		}
		// the printed report carries the same entries: count line and one table row per entry
		count, rows, ok := tableRows(res.Stdout)
		if !ok {
			o.Violate("cli-no-count-line"+how, "`coca todo` printed no 'Todos Count' line: %s", firstLine(res.Stdout))
		} else {
			if count != len(js) {
				o.Violate("cli-count-differs"+how, "'Todos Count %d' printed, simple-todos.json has %d entries", count, len(js))
			}
			sort.Strings(rows)
			sort.Strings(jsonRows)
			if strings.Join(rows, "\n") != strings.Join(jsonRows, "\n") {
				o.Violate("cli-table-differs"+how, "table rows (file:line) %v differ from simple-todos.json %v", rows, jsonRows)
			}
			o.Count("cli_table_rows_compared", len(rows))
		}
	} else {
		// in-process the same directory is also named with a trailing slash and through an empty sub-directory + ".."
		root := src
		switch r.Intn(6) {
		case 0:
			os.MkdirAll(filepath.Join(src, "zzcwd"), 0o755)
			root, rootKind = src+"/zzcwd/..", "sub-dotdot"
		case 1:
			root, rootKind = src+"/", "abs-slash"
		}
		o.Count("inproc_root_spelled_"+rootKind, 1)
		witness["boundary"] = "todo.TodoApp.AnalysisPath(" + strings.TrimPrefix(root, dir+"/") + ", exts)"
		var res []*astitodo.TODO
		panicked, val, site := run.Guard(func() { res = todo.NewTodoApp().AnalysisPath(root, exts) })
		if panicked {
			o.Count("panics", 1)
			o.Violate("panic@"+site, "TodoApp.AnalysisPath panicked: %s", val)
			return
		}
		for _, t := range res {
			if t == nil {
				o.Violate("nil-entry", "AnalysisPath returned a nil entry")
				continue
			}
			observed = append(observed, oracle.TodoEntry{File: rel(src, filepath.Clean(t.Filename)), Line: t.Line, Assignee: t.Assignee, Message: t.Message})
		}
	}
	if required > 0 && len(observed) == 0 && rootKind != "plain" {
		// nothing at all came back although marker comments were planted: say how the directory was named
		bd := "inproc"
		if useCLI {
			bd = "cli"
		}
		o.Violate("empty-report/"+bd+"@root:"+rootKind, "%d marker comments planted in selected files, the report is empty; the directory was named %v", required, witness["boundary"])
	}
	witness["observed"] = observed
	o.Count("events_observed", len(observed))
	mm, matched := oracle.CheckTodos(truth, observed)
	o.Count("events_matched", matched)
	for _, m := range mm {
		o.Violate(m.Sig, "%s", m.Msg)
	}
	if len(mm) > 0 {
		witness["filter"] = exts
		var exp []oracle.TodoEntry
		for _, e := range truth.Expect {
			if !e.Optional {
				exp = append(exp, oracle.TodoEntry{File: e.File, Line: e.Line, Assignee: e.Assignee, Message: oracle.NormTodoMessage(e.Message)})
			}
		}
		witness["expected"] = exp
	}
	if c.Index < 64 && sampleFile != nil {
		var exp, got []oracle.TodoEntry
		for _, e := range truth.Expect {
			if e.File == sampleFile.Rel && !e.Optional {
				exp = append(exp, oracle.TodoEntry{File: e.File, Line: e.Line, Assignee: e.Assignee, Message: oracle.NormTodoMessage(e.Message)})
			}
		}
		for _, e := range observed {
			if e.File == sampleFile.Rel {
				got = append(got, e)
			}
		}
		o.Sample = map[string]interface{}{"filter": exts, "files_in_tree": len(tree.Files), "one_file": sampleFile.Rel, "text": sampleFile.Text,
			"planted_in_it": exp, "reported_for_it": got, "boundary": witness["boundary"], "entries_reported_for_tree": len(observed)}
	}
}
