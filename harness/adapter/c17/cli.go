package c17

import (
	"bytes"
	"context"
	"io/ioutil"
	"os"
	"os/exec"
	"time"
)

type cliResult struct {
	Stdout, Stderr string
	ExitCode       int
	TimedOut       bool
}

// runCLI runs the coca binary with cwd=dir (copy of common.RunCLI; the timeout is a watchdog only).
func runCLI(bin, dir string, args ...string) cliResult {
	ctx, cancel := context.WithTimeout(context.Background(), 120*time.Second)
	defer cancel()
	cmd := exec.CommandContext(ctx, bin, args...)
	cmd.Dir = dir
	cmd.Env = os.Environ()
	// coca leaves a profile*/ directory in $TMPDIR per invocation: give it a directory that is removed afterwards
	if tmp, err := ioutil.TempDir("", "vfcli-"); err == nil {
		cmd.Env = append(cmd.Env, "TMPDIR="+tmp)
		defer os.RemoveAll(tmp)
	}
	var so, se bytes.Buffer
	cmd.Stdout = &so
	cmd.Stderr = &se
	err := cmd.Run()
	res := cliResult{Stdout: so.String(), Stderr: se.String()}
	if ctx.Err() != nil {
		res.TimedOut = true
	}
	if err != nil {
		if ee, ok := err.(*exec.ExitError); ok {
			res.ExitCode = ee.ExitCode()
		} else {
			res.ExitCode = -1
		}
	}
	return res
}
