// Package c02 checks that the calls recorded for every function are exactly the invocations and creations
// written in its body, with exact identifier positions and receiver types.
package c02

import (
	"encoding/json"
	"io/ioutil"
	"path/filepath"
	"strings"

	"github.com/modernizing/coca/pkg/application/analysis/javaapp"
	"github.com/modernizing/coca/pkg/domain/core_domain"

	"verifharness/adapter/common"
	"verifharness/gen/javagen"
	"verifharness/oracle"
	"verifharness/run"
)

func cases(tier string) int {
	if tier == "thorough" {
		return 12000
	}
	return 1000
}

func cliEvery(tier string) int {
	if tier == "thorough" {
		return 27
	}
	return 19
}

var Check = &run.Check{
	ID:    "C02",
	Level: "exploration",
	Rule: "case = generated conventional Java project (1-5 classes, <= 12 methods each) whose bodies are built from local declarations (also final / several declarators), assignments (also of freshly created objects of another type), " +
		"if/else, for, enhanced for, while, switch, try/catch/finally, return, with planted call sites: unqualified, this., field-, parameter-, local-receiver, static Type.m(), chains, nested in arguments, new T(..), lambdas; " +
		"0-6 sites per line at any column; name reuse: the same variable name as field/parameter/local with different types (shadowing) and across methods, imports whose last segment has a project type as suffix, the same simple class name in two packages; " +
		"run through JavaIdentifierApp + JavaFullApp.AnalysisPath and `coca analysis`; non-trivial = >= 3 receiver classes among resolved sites and >= 1 line with >= 2 sites; distinct = hash of the per-method site-kind sequences",
	Assumptions: []string{
		"ASCII only (columns are characters; multi-byte layouts belong to C05)",
		"the resolution clause is asserted for implicit receivers and for field/parameter/local receivers whose declared type is a plain class name of the own package, single-type imported, or unique in the project; this./super./static/chained/other receivers only have callee name and position asserted",
		"method references, anonymous classes, interface default bodies, field initialisers with calls and block-scoped re-declarations are not generated",
	},
	Cases: cases,
	Floor: func(tier string) int {
		if tier == "thorough" {
			return 500
		}
		return 30
	},
	Run: runCase,
}

var opts = javagen.Opts{AnonClasses: true, AccessorNames: true, ExoticNames: true, MinFiles: 1, MaxFiles: 5, MaxMethods: 8, MaxParams: 4, MaxFields: 4, Generics: true, Annotations: true, Ctors: true,
	Bodies: true, MaxStmts: 8, MaxSites: 25, Shadowing: true, SuffixImports: true, SameNameTwoPkgs: true, Lambdas: true, FieldsFirst: true}

func runCase(c *run.Ctx, o *run.Outcome) {
	p := javagen.Generate(c.Rng, opts)
	if err := javagen.SelfCheck(p); err != nil {
		o.SetInconclusive("generator self-check: " + err.Error())
		return
	}
	recvSeen := map[string]bool{}
	multiLine := false
	var sb strings.Builder
	nSites := 0
	for _, f := range p.Files {
		if f.Type == nil {
			continue
		}
		if ne, first := common.JavaSyntaxErrors(f.Text); ne > 0 {
			o.SetInconclusive("generated file rejected by coca's Java parser: " + first)
			return
		}
		for _, m := range f.Type.Methods() {
			perLine := map[int]int{}
			sb.WriteString("|")
			for _, s := range m.Sites {
				nSites++
				perLine[s.Line]++
				if perLine[s.Line] >= 2 {
					multiLine = true
				}
				if s.Resolved {
					recvSeen[s.Recv] = true
				}
				o.Count("sites_"+s.Recv, 1)
				sb.WriteString(s.Kind[:1] + s.Recv[:1])
			}
		}
	}
	o.Shape = run.ShapeHash(sb.String())
	o.NonTrivial = len(recvSeen) >= 3 && multiLine
	dir := filepath.Join(c.Scratch(), "proj")
	if _, err := common.WriteProject(dir, p); err != nil {
		o.SetInconclusive("cannot write project: " + err.Error())
		return
	}
	files := map[string]string{}
	for _, f := range p.Files {
		files[f.RelPath] = f.Text
	}
	o.Witness = map[string]interface{}{"files": files}
	var ident, full []core_domain.CodeDataStruct
	if c.CocaBin != "" && c.Index%cliEvery(c.Tier) == 0 {
		o.Count("cli_cases", 1)
		res := common.RunCLI(c.CocaBin, c.Scratch(), nil, "analysis", "-p", dir)
		if res.TimedOut {
			o.SetInconclusive("cli watchdog")
			return
		}
		if res.ExitCode != 0 || strings.Contains(res.Stderr, "panic:") {
			o.Violate("cli-crash", "`coca analysis` exit %d: %s", res.ExitCode, strings.TrimSpace(res.Stderr))
			return
		}
		fb, err := ioutil.ReadFile(filepath.Join(c.Scratch(), "coca_reporter", "deps.json"))
		if err != nil || json.Unmarshal(fb, &full) != nil {
			o.Violate("cli-no-output", "`coca analysis` did not write a readable deps.json")
			return
		}
	} else {
		panicked, val, site := run.Guard(func() {
			ia := javaapp.NewJavaIdentifierApp()
			ident = ia.AnalysisPath(dir)
			fa := javaapp.NewJavaFullApp()
			full = fa.AnalysisPath(dir, ident)
		})
		if panicked {
			o.Violate("panic@"+site, "analysis panicked: %s", val)
			return
		}
	}
	ms, planted, matched, resolved := oracle.CheckCallSites(p, common.ToObserved(full))
	o.Count("sites_planted", planted)
	o.Count("sites_matched", matched)
	o.Count("sites_resolution_checked", resolved)
	for _, m := range ms {
		o.Violate(m.Sig, "%s", m.Msg)
	}
	if c.Index < 64 && len(p.Files) > 0 && len(p.Files[0].Text) < 4000 {
		o.Sample = map[string]interface{}{"first_file": p.Files[0].RelPath, "text": p.Files[0].Text, "sites_in_project": nSites}
	}
}
