// Package c13 drives coca's architecture-graph pipeline (arch.ArchApp.Analysis, FullGraph.MergeHeaderFile,
// FullGraph.ToMapDot and, for every Nth case, the real `coca arch`) on synthetic type-level models and
// lets oracle/arch.go decide property C13.
package c13

import (
	"fmt"
	"io/ioutil"
	"os"
	"path/filepath"
	"sort"
	"strings"

	"github.com/modernizing/coca/pkg/application/arch"
	"github.com/modernizing/coca/pkg/application/arch/tequila"
	"github.com/modernizing/coca/pkg/domain/core_domain"

	"verifharness/adapter/common"
	"verifharness/gen/archgen"
	"verifharness/obs"
	"verifharness/oracle"
	"verifharness/run"
)

func cases(tier string) int {
	if tier == "thorough" {
		return 150000
	}
	return 12000
}

func cliEvery(tier string) int {
	if tier == "thorough" {
		return 300
	}
	return 300
}

var Check = &run.Check{
	ID:    "C13",
	Level: "exploration",
	Rule: "case = synthetic code model (1-30 types + optional entry class Main over 1-7 packages 1-5 segments deep, nested and sibling packages, segment alphabets " +
		"{a,ab,abc,b,bc,bcd,c,cd,d,abcd} chosen so that From+To concatenations of different package pairs are equal (planted explicitly in mode `collision`) and/or {com,org,acme,...}; " +
		"implements/extends/field/call relations to project types, to non-project types (foreign packages, foreign types inside a project package or under a project top-level segment, bare and empty unresolved names), " +
		"to the type itself and to Main; methods named main and look-alikes; identifier map = the model's types; in 1/5 of the models that allow it some types (also targets of every relation kind) live in the default package; " +
		"names with underscores and non-ASCII letters, with planted pairs of full names that become equal when characters outside [A-Za-z0-9_] are replaced by '_' (legacy.db_v2.Conn / legacy.db.v2_Conn, shop.Größe / shop.Grüße)). Every case runs in-process: Analysis -> graph check; " +
		"MergeHeaderFile(MergeHeaderFunc), MergeHeaderFile(MergePackageFunc), and both in sequence (only when every package has >= 2 segments) -> quotient check; " +
		"ToMapDot(filter).String() of each of these graphs with an include filter drawn per graph (all / substring list / arbitrary subset / none) -> DOT check. " +
		"Every Nth case also runs `coca arch [-x F] [-H] [-P]` on coca_reporter/deps.json + identify.json and checks coca_reporter/arch.dot with the same oracle. " +
		"non-trivial = >= 3 nodes in >= 2 packages, edges between project types of >= 2 relation kinds, >= 1 relation to a non-node, and a non-empty package quotient; " +
		"distinct = hash of (mode, package-tree shape, per-type relation targets by index, filter kinds)",
	Assumptions: []string{
		"no type's full name is (a prefix of) another type's package; full names are unique (left open by the statement)",
		"types of the default package: node, edge and quotient clauses are judged (all of them form ONE group under either merge); the spelling of such a node ('.B' or 'B') and of that group ('' or any one other name) is read from the observed NodeList, and a relation end only counts as that node when it is spelled the same way; how they are drawn in the DOT (leaf, edges, absence) is not judged, because 'under its package path' says nothing for a type without one",
		"the identifier map is exactly the set of types of the model (that is what makes a type a project type)",
		"after merging, a node whose name is a segment-prefix of another shown node (a package with sub-packages) is not required to be displayed",
		"merge-header followed by merge-package is only judged when every package has at least two segments (the name of the group of a one-segment package is left open)",
		"`coca arch -x F` is only run with F for which substring and whole-segment-prefix reading select the same nodes",
		"the DOT text is judged by github.com/awalterschulze/gographviz; `ToMapDot(...).String()` is taken as is, arch.dot as written by the CLI",
		"packages are at most 5 segments deep (MergePackageFunc keeps 7 segments for deeper names: outside the generated range)",
	},
	Cases: cases,
	Floor: func(tier string) int {
		if tier == "thorough" {
			return 3000
		}
		return 100
	},
	Run: runCase,
}

// ---- model -> coca

// ToCoca converts a generated architecture model into coca's code model, identifier map and identifier list (also used by C08).
func ToCoca(m *archgen.Model) ([]core_domain.CodeDataStruct, map[string]core_domain.CodeDataStruct, []core_domain.CodeDataStruct) {
	var deps []core_domain.CodeDataStruct
	for _, t := range m.Types {
		ds := core_domain.CodeDataStruct{NodeName: t.Name, Package: t.Pkg, Type: "Class",
			FilePath: strings.ReplaceAll(t.Pkg, ".", "/") + "/" + t.Name + ".java"}
		if t.Interface {
			ds.Type = "Interface"
		}
		if t.Extends != nil {
			ds.Extend = t.Extends.Full()
		}
		for _, r := range t.Implements {
			ds.Implements = append(ds.Implements, r.Full())
		}
		for i, r := range t.Fields {
			ds.FunctionCalls = append(ds.FunctionCalls, core_domain.CodeCall{Package: r.Pkg, Type: "field", NodeName: r.Name,
				Position: core_domain.CodePosition{StartLine: 3 + i, StopLine: 3 + i}})
		}
		line := 10
		for _, me := range t.Methods {
			fn := core_domain.CodeFunction{Name: me.Name, ReturnType: "void"}
			for _, r := range me.Calls {
				line++
				call := core_domain.CodeCall{Package: r.Pkg, NodeName: r.Name, FunctionName: "op",
					Position: core_domain.CodePosition{StartLine: line, StopLine: line}}
				if r.Pkg == "" && r.Name == "" {
					call.FunctionName = "local"
				}
				fn.FunctionCalls = append(fn.FunctionCalls, call)
			}
			ds.Functions = append(ds.Functions, fn)
		}
		deps = append(deps, ds)
	}
	idents := make([]core_domain.CodeDataStruct, 0, len(deps))
	idmap := map[string]core_domain.CodeDataStruct{}
	for _, d := range deps {
		id := core_domain.CodeDataStruct{NodeName: d.NodeName, Package: d.Package, Type: d.Type, Extend: d.Extend, Implements: d.Implements}
		idents = append(idents, id)
		idmap[d.Package+"."+d.NodeName] = id
	}
	return deps, idmap, idents
}

// snapshot reads a FullGraph through its exported fields only.
func snapshot(g *tequila.FullGraph) ([]string, []obs.Edge) {
	var nodes []string
	for k := range g.NodeList {
		nodes = append(nodes, k)
	}
	sort.Strings(nodes)
	var rel []obs.Edge
	for _, r := range g.RelationList {
		if r != nil {
			rel = append(rel, obs.Edge{From: r.From, To: r.To})
		}
	}
	sort.Slice(rel, func(i, j int) bool {
		if rel[i].From != rel[j].From {
			return rel[i].From < rel[j].From
		}
		return rel[i].To < rel[j].To
	})
	return nodes, rel
}

// ---- include filters

type filter struct {
	Kind string
	Desc string
	Pred func(string) bool
}

func sortedSet(m map[string]bool) []string {
	var out []string
	for k := range m {
		out = append(out, k)
	}
	sort.Strings(out)
	return out
}

// drawFilter: an include predicate over the node names of one graph.
func drawFilter(r *run.Rand, nodes []string) filter {
	if len(nodes) == 0 {
		return filter{"all", "all", func(string) bool { return true }}
	}
	switch r.Intn(8) {
	case 0, 1:
		return filter{"all", "all", func(string) bool { return true }}
	case 2:
		return filter{"none", "none", func(string) bool { return false }}
	case 3, 4: // arbitrary subset
		set := map[string]bool{}
		for _, n := range nodes {
			if r.Bool() {
				set[n] = true
			}
		}
		return filter{"subset", "subset " + strings.Join(sortedSet(set), ","), func(k string) bool { return set[k] }}
	default: // substring list, as the CLI builds it from -x a,b
		var subs []string
		for k := r.Range(1, 3); k > 0; k-- {
			n := nodes[r.Intn(len(nodes))]
			segs := strings.Split(n, ".")
			switch r.Intn(4) {
			case 0: // a package prefix
				subs = append(subs, strings.Join(segs[:r.Range(1, len(segs))], "."))
			case 1: // one segment
				subs = append(subs, segs[r.Intn(len(segs))])
			case 2: // an inner piece of the name (cut at rune boundaries)
				rs := []rune(n)
				if len(rs) == 0 {
					subs = append(subs, n)
					break
				}
				i := r.Intn(len(rs))
				j := r.Range(i+1, len(rs))
				subs = append(subs, string(rs[i:j]))
			default:
				subs = append(subs, n)
			}
		}
		return filter{"substring", "substring " + strings.Join(subs, ","), func(k string) bool {
			for _, s := range subs {
				if strings.Contains(k, s) {
					return true
				}
			}
			return false
		}}
	}
}

// cliWords picks the comma separated words of a -x value. Every word is one for which the reading of the flag
// is not in question: over the nodes of the graph, "the name contains the word" and "the name equals the word or
// starts with word+'.'" select the same set (a word that occurs in no name at all trivially qualifies). The
// words deliberately carry characters that mean something to other matchers but nothing to a literal one:
// '.' between segments while a look-alike neighbour (pre.db_v2 next to pre.db.v2) exists, '$' of nested type
// names, and words with ( ) [ ] + * that occur in no name. nil = no flag.
func cliWords(r *run.Rand, nodes []string, twins [][2]string) ([]string, []string) {
	if len(nodes) == 0 || r.Chance(1, 4) {
		return nil, nil
	}
	unambiguous := func(w string) bool {
		if w == "" || strings.Contains(w, ",") {
			return false
		}
		for _, k := range nodes {
			if strings.Contains(k, w) != (k == w || strings.HasPrefix(k, w+".")) {
				return false
			}
		}
		return true
	}
	// segment-prefixes of the dotted twin that reach beyond the planted '.'-versus-'_' position and select
	// at least one node of this graph
	var twinPrefixes []string
	for _, tw := range twins {
		for _, side := range []int{0, 1} {
			a, b := tw[side], tw[1-side]
			i := 0
			for i < len(a) && i < len(b) && a[i] == b[i] {
				i++
			}
			if i >= len(a) || i >= len(b) || a[i] != '.' || b[i] == '.' {
				continue
			}
			segs := strings.Split(a, ".")
			for n := 1; n <= len(segs); n++ {
				p := strings.Join(segs[:n], ".")
				if len(p) <= i {
					continue
				}
				for _, k := range nodes {
					if k == p || strings.HasPrefix(k, p+".") {
						twinPrefixes = append(twinPrefixes, p)
						break
					}
				}
			}
		}
	}
	junk := []string{"Impl(", "(x)", "a+b", "[ab]", "v1)", "x*y", "Entry$", "^com", "\\d", "b{2}", "c?d+"}
	var dollar []string
	for _, k := range nodes {
		if strings.Contains(k, "$") {
			dollar = append(dollar, k)
		}
	}
	var words, kinds []string
	for n := r.Range(1, 2); n > 0; n-- {
		for try := 0; try < 8; try++ {
			var w, kind string
			switch x := r.Intn(10); {
			case x < 3 && len(twinPrefixes) > 0:
				w, kind = twinPrefixes[r.Intn(len(twinPrefixes))], "dot-with-lookalike-neighbour"
			case x < 5 && len(dollar) > 0:
				w, kind = dollar[r.Intn(len(dollar))], "dollar-name"
			case x == 5 || (x == 6 && len(words) > 0):
				w, kind = junk[r.Intn(len(junk))], "metacharacters-in-no-name"
			default:
				k := nodes[r.Intn(len(nodes))]
				if k == "" || strings.HasPrefix(k, ".") {
					continue // a node of the default package: not used to build a filter
				}
				segs := strings.Split(k, ".")
				w, kind = strings.Join(segs[:r.Range(1, len(segs))], "."), "segment-prefix"
				if strings.Contains(w, "$") {
					kind = "dollar-name"
				}
			}
			if unambiguous(w) {
				words = append(words, w)
				kinds = append(kinds, kind)
				break
			}
		}
	}
	return words, kinds
}

func included(nodes map[string]bool, pred func(string) bool) map[string]bool {
	inc := map[string]bool{}
	for n := range nodes {
		if pred(n) {
			inc[n] = true
		}
	}
	return inc
}

func edgeStrings(es []obs.Edge) []string {
	var out []string
	for _, e := range es {
		out = append(out, e.From+" -> "+e.To)
	}
	return out
}

func graphStrings(g *oracle.ArchGraph) map[string]interface{} {
	var es []obs.Edge
	for e := range g.Edges {
		es = append(es, e)
	}
	sort.Slice(es, func(i, j int) bool {
		if es[i].From != es[j].From {
			return es[i].From < es[j].From
		}
		return es[i].To < es[j].To
	})
	return map[string]interface{}{"nodes": sortedSet(g.Nodes), "edges": edgeStrings(es)}
}

func runCase(c *run.Ctx, o *run.Outcome) {
	r := c.Rng
	useCLI := c.CocaBin != "" && c.Index%cliEvery(c.Tier) == 0
	cfgH, cfgP := r.Bool(), r.Bool()
	opts := archgen.Opts{MaxTypes: 30, MinPkgDepth: 1}
	if r.Chance(1, 2) {
		opts.MaxTypes = 8
	}
	if (useCLI && cfgH && cfgP) || r.Chance(1, 4) {
		opts.MinPkgDepth = 2
	}
	// every other CLI case gets a '.'-versus-'_' pair of packages for the -x words
	opts.ForceTwins = useCLI && (c.Index/cliEvery(c.Tier))%2 == 0
	m := archgen.Generate(r.Fork(), opts)
	fr := r.Fork()
	deps, idmap, idents := ToCoca(m)

	// ---- expectations (from the statement)
	want0 := oracle.ArchExpected(m)
	wantH := oracle.ArchQuotient(want0, oracle.ArchTypeMerge(m, oracle.MergeHeader), oracle.MergeHeader)
	wantP := oracle.ArchQuotient(want0, oracle.ArchTypeMerge(m, oracle.MergePackage), oracle.MergePackage)
	hpJudged := m.MinPkgDepth() >= 2
	var wantHP *oracle.ArchGraph
	if hpJudged {
		wantHP = oracle.ArchQuotient(wantH, oracle.ArchTopOfPackages(sortedSet(wantH.Nodes)), oracle.MergePackage)
	}

	// ---- bookkeeping
	kinds := map[string]bool{}
	for e, why := range want0.Why {
		for _, k := range why {
			kinds[k] = true
			o.Count("edges_planted_"+k, 1)
		}
		if e.From == e.To {
			o.Count("self_loops_expected", 1)
		}
	}
	nodePkgs := map[string]bool{}
	mains := 0
	for _, t := range m.Types {
		if t.IsMain() {
			mains++
		} else {
			nodePkgs[t.Pkg] = true
		}
	}
	defTypes, underscore, nonASCII := 0, 0, 0
	for _, t := range m.Types {
		if t.Pkg == "" {
			defTypes++
		}
		if strings.Contains(t.Full(), "_") {
			underscore++
		}
		for _, ch := range t.Full() {
			if ch > 127 {
				nonASCII++
				break
			}
		}
	}
	o.Count("default_package_types", defTypes)
	if defTypes > 0 {
		o.Count("models_with_default_package", 1)
	}
	for e := range want0.Edges {
		if strings.HasPrefix(e.To, ".") {
			o.Count("edges_expected_to_default_package_type", 1)
			for _, k := range want0.Why[e] {
				o.Count("edges_expected_to_default_package_type_"+k, 1)
			}
		}
		if strings.HasPrefix(e.From, ".") {
			o.Count("edges_expected_from_default_package_type", 1)
		}
	}
	for e := range wantH.Edges {
		if e.From == "" || e.To == "" {
			o.Count("mergeH_edges_expected_at_default_package_group", 1)
		}
	}
	o.Count("types_with_underscore_in_full_name", underscore)
	o.Count("types_with_non_ascii_full_name", nonASCII)
	if len(m.Twins) > 0 {
		o.Count("models_with_sanitise_twins", 1)
	}
	o.Count("types", len(m.Types))
	o.Count("main_classes", mains)
	o.Count("nodes_expected", len(want0.Nodes))
	o.Count("edges_expected", len(want0.Edges))
	o.Count("relations_to_non_nodes", len(want0.Outside))
	o.Count("self_calls_planted", len(want0.SelfCall))
	o.Count("calls_only_from_main_method", len(want0.MainCall))
	o.Count("mergeH_edges_expected", len(wantH.Edges))
	o.Count("mergeP_edges_expected", len(wantP.Edges))
	collisions := 0
	for _, g := range []*oracle.ArchGraph{wantH, wantP} {
		seen := map[string]int{}
		for e := range g.Edges {
			seen[e.From+e.To]++
		}
		for _, n := range seen {
			if n > 1 {
				collisions++
			}
		}
	}
	o.Count("merged_key_collisions_expected", collisions)
	if collisions > 0 {
		o.Count("models_with_key_collision", 1)
	}
	if hpJudged {
		o.Count("mergeHP_judged", 1)
	}
	o.Seen("generator_modes", m.Mode)
	o.NonTrivial = len(want0.Nodes) >= 3 && len(nodePkgs) >= 2 && len(kinds) >= 2 && len(want0.Outside) >= 1 && len(wantH.Edges) >= 1

	witness := map[string]interface{}{"model": m.Describe(), "mode": m.Mode, "expected": graphStrings(want0)}
	if len(m.Collision) > 0 {
		witness["planted_collision"] = m.Collision
	}
	if len(m.Twins) > 0 {
		witness["planted_sanitise_twins"] = m.Twins
	}
	o.Witness = witness

	// ---- in-process: Analysis
	var g0 *tequila.FullGraph
	panicked, val, site := run.Guard(func() { g0 = arch.NewArchApp().Analysis(deps, idmap) })
	if panicked {
		o.Violate("panic@"+site, "ArchApp.Analysis panicked: %s", val)
		return
	}
	if g0 == nil {
		o.Violate("analysis-nil", "ArchApp.Analysis returned nil")
		return
	}
	n0, r0 := snapshot(g0)
	witness["observed"] = map[string]interface{}{"nodes": n0, "relations": edgeStrings(r0)}
	o.Count("nodes_observed", len(n0))
	o.Count("relations_observed", len(r0))
	alias0 := oracle.ArchAliases("", want0, n0)
	for _, n := range n0 {
		if _, ok := alias0[n]; ok {
			o.Seen("default_package_node_spelling", "Name")
		} else if strings.HasPrefix(n, ".") {
			o.Seen("default_package_node_spelling", ".Name")
		}
	}
	n0, r0 = oracle.ArchRename(alias0, n0, r0)
	ms0 := oracle.CheckArchGraph("", want0, n0, r0)
	for _, mm := range ms0 {
		o.Violate(mm.Sig, "%s", mm.Msg)
	}

	type stage struct {
		name  string
		want  *oracle.ArchGraph
		graph *tequila.FullGraph
		ok    bool
		open  map[string]bool // names whose drawing is not judged (default package)
	}
	stages := []*stage{{name: "", want: want0, graph: g0, ok: len(ms0) == 0, open: oracle.ArchOpenInDot("", want0, alias0)}}
	filters := []string{}

	// ---- in-process: merges (only meaningful on a correct type-level graph)
	if len(ms0) == 0 {
		merge := func(name string, in *tequila.FullGraph, fn func(string) string, want *oracle.ArchGraph) *stage {
			var out *tequila.FullGraph
			panicked, val, site := run.Guard(func() { out = in.MergeHeaderFile(fn) })
			if panicked {
				o.Violate("panic@"+site, "MergeHeaderFile (%s) panicked: %s", name, val)
				return nil
			}
			if out == nil {
				o.Violate(name+"-nil", "MergeHeaderFile (%s) returned nil", name)
				return nil
			}
			nn, rr := snapshot(out)
			witness[name] = map[string]interface{}{"expected": graphStrings(want), "observed_nodes": nn, "observed_relations": edgeStrings(rr)}
			o.Count(name+"_graphs_checked", 1)
			alias := oracle.ArchAliases(name, want, nn)
			for a := range alias {
				o.Seen("default_package_group_spelling", fmt.Sprintf("%q", a))
			}
			if want.Nodes[""] && len(alias) == 0 {
				o.Seen("default_package_group_spelling", `""`)
			}
			nn, rr = oracle.ArchRename(alias, nn, rr)
			ms := oracle.CheckArchGraph(name, want, nn, rr)
			for _, mm := range ms {
				o.Violate(mm.Sig, "%s", mm.Msg)
			}
			st := &stage{name: name, want: want, graph: out, ok: len(ms) == 0, open: oracle.ArchOpenInDot(name, want, alias)}
			stages = append(stages, st)
			return st
		}
		sH := merge("mergeH", g0, tequila.MergeHeaderFunc, wantH)
		merge("mergeP", g0, tequila.MergePackageFunc, wantP)
		if hpJudged && sH != nil && sH.ok {
			merge("mergeHP", sH.graph, tequila.MergePackageFunc, wantHP)
		}
	} else {
		o.Count("merge_checks_skipped_after_graph_mismatch", 1)
	}

	// ---- in-process: DOT of every graph that passed its own check
	for _, st := range stages {
		if !st.ok {
			o.Count("dot_checks_skipped_after_graph_mismatch", 1)
			continue
		}
		f := drawFilter(fr, sortedSet(st.want.Nodes))
		filters = append(filters, f.Kind)
		o.Seen("filter_kinds", f.Kind)
		var dot string
		panicked, val, site := run.Guard(func() { dot = st.graph.ToMapDot(f.Pred).String() })
		if panicked {
			o.Violate("panic@"+site, "ToMapDot(%s) on %q graph panicked: %s", f.Desc, st.name, val)
			continue
		}
		key := "dot"
		if st.name != "" {
			key = "dot_" + st.name
		}
		witness[key] = map[string]interface{}{"filter": f.Desc, "text": dot}
		checkDot(o, m, st.name, st.want, included(st.want.Nodes, f.Pred), st.open, dot, f.Desc)
	}
	o.Shape = run.ShapeHash(m.ShapeKey(), strings.Join(filters, ","))

	// ---- the real CLI
	if useCLI {
		runCLI(c, o, fr, witness, deps, idents, cfgH, cfgP, want0, wantH, wantP, wantHP, m.Twins)
	}
	if c.Index < 64 {
		o.Sample = map[string]interface{}{"model": m.Describe(), "expected_nodes": len(want0.Nodes), "expected_edges": len(want0.Edges),
			"observed_nodes": len(n0), "observed_relations": len(r0), "mergeH_expected": graphStrings(wantH), "filters": filters}
	}
}

func checkDot(o *run.Outcome, m *archgen.Model, stage string, want *oracle.ArchGraph, inc map[string]bool, open map[string]bool, dot, filterDesc string) {
	pre := "dot-"
	if stage != "" {
		pre = "dot-" + stage + "-"
	}
	d, err := oracle.ParseArchDot(dot)
	if err != nil {
		o.Violate(pre+"malformed", "DOT of the %q graph (filter %s) rejected by the DOT parser: %v", stage, filterDesc, err)
		return
	}
	o.Count("dot_graphs_checked", 1)
	o.Count("dot_leaves_observed", len(d.Leaves))
	o.Count("dot_edges_observed", len(d.Edges))
	o.Count("dot_nodes_included_expected", len(inc))
	if len(inc) < len(want.Nodes) {
		o.Count("dot_graphs_with_filtered_out_nodes", 1)
	}
	for a := range inc {
		for b := range inc {
			if a != b && strings.HasPrefix(b, a+".") {
				o.Count("dot_included_nodes_that_are_prefix_of_another(display not required)", 1)
				break
			}
		}
	}
	for n := range inc {
		if open[n] {
			o.Count("dot_included_nodes_of_default_package(drawing not judged)", 1)
		}
	}
	if stage == "" {
		for _, tw := range m.Twins {
			if inc[tw[0]] && inc[tw[1]] {
				o.Count("dot_graphs_showing_both_sanitise_twins", 1)
			}
		}
	}
	for _, mm := range oracle.CheckArchDot(stage, want, inc, open, d) {
		o.Violate(mm.Sig, "%s [filter %s]", mm.Msg, filterDesc)
	}
}

func runCLI(c *run.Ctx, o *run.Outcome, r *run.Rand, witness map[string]interface{}, deps, idents []core_domain.CodeDataStruct,
	cfgH, cfgP bool, want0, wantH, wantP, wantHP *oracle.ArchGraph, twins [][2]string) {
	want, stage := want0, ""
	switch {
	case cfgH && cfgP:
		want, stage = wantHP, "mergeHP"
	case cfgH:
		want, stage = wantH, "mergeH"
	case cfgP:
		want, stage = wantP, "mergeP"
	}
	if want == nil { // -H -P with a one-segment package: not judged (cannot happen: the generator was asked for depth >= 2)
		return
	}
	words, wordKinds := cliWords(r, sortedSet(want.Nodes), twins)
	f := strings.Join(words, ",")
	args := []string{"arch"}
	if f != "" {
		args = append(args, "-x", f)
	}
	for _, k := range wordKinds {
		o.Count("cli_filter_words_"+k, 1)
	}
	if cfgH {
		args = append(args, "-H")
	}
	if cfgP {
		args = append(args, "-P")
	}
	o.Count("cli_cases", 1)
	o.Seen("cli_configs", fmt.Sprintf("x=%v H=%v P=%v", f != "", cfgH, cfgP))
	dir := c.Scratch()
	rep := filepath.Join(dir, "coca_reporter")
	os.MkdirAll(rep, 0o755)
	common.WriteJSON(filepath.Join(rep, "deps.json"), deps)
	common.WriteJSON(filepath.Join(rep, "identify.json"), idents)
	res := common.RunCLI(c.CocaBin, dir, nil, args...)
	if res.TimedOut {
		o.SetInconclusive("cli watchdog")
		return
	}
	if res.ExitCode != 0 || strings.Contains(res.Stderr, "panic:") || strings.Contains(res.Stderr, "fatal error") {
		o.Violate("cli-crash", "`coca %s` exit %d: %s", strings.Join(args, " "), res.ExitCode, head(res.Stderr))
		return
	}
	b, err := ioutil.ReadFile(filepath.Join(rep, "arch.dot"))
	if err != nil {
		o.Violate("cli-no-output", "`coca %s` wrote no coca_reporter/arch.dot", strings.Join(args, " "))
		return
	}
	dot := string(b)
	witness["cli"] = map[string]interface{}{"args": args, "arch.dot": dot, "expected": graphStrings(want)}
	pred := func(k string) bool {
		if len(words) == 0 {
			return true
		}
		for _, w := range words {
			if k == w || strings.HasPrefix(k, w+".") {
				return true
			}
		}
		return false
	}
	if len(words) > 0 {
		inc := included(want.Nodes, pred)
		o.Count("cli_filter_nodes_included", len(inc))
		o.Count("cli_filter_nodes_excluded", len(want.Nodes)-len(inc))
		// how many excluded names a pattern reading of the words ('.' = any character) would have let in
		for n := range want.Nodes {
			if inc[n] {
				continue
			}
			for _, w := range words {
				if strings.Contains(w, ".") && looseDotMatch(n, w) {
					o.Count("cli_filter_excluded_lookalikes('.'_vs_other_char)", 1)
					break
				}
			}
		}
	}
	desc := "cli " + strings.Join(args, " ")
	d, err := oracle.ParseArchDot(dot)
	if err != nil {
		o.Violate("cli-dot-malformed", "arch.dot of `%s` rejected by the DOT parser: %v", desc, err)
		return
	}
	if !d.Directed && d.Arrow > 0 {
		o.Violate("cli-dot-arrow-in-undirected-graph", "arch.dot of `%s` is an undirected graph but uses ->", desc)
	}
	o.Count("cli_dot_leaves_observed", len(d.Leaves))
	o.Count("cli_dot_edges_observed", len(d.Edges))
	// the default package: its drawing is not judged; after merging, its group may carry any name, which the
	// DOT alone cannot tell: a single unknown top-level leaf is taken to be that group
	open := oracle.ArchOpenInDot(stage, want, nil)
	if stage != "" && want.Nodes[""] {
		unknown := map[string]bool{}
		for _, l := range d.Leaves {
			if len(l.Path) == 0 && !want.Nodes[l.Full()] {
				unknown[l.Full()] = true
			}
		}
		if len(unknown) == 1 {
			for u := range unknown {
				open[u] = true
			}
		}
	}
	for _, mm := range oracle.CheckArchDot(stage, want, included(want.Nodes, pred), open, d) {
		o.Violate("cli-"+mm.Sig, "%s [%s]", mm.Msg, desc)
	}
}

// looseDotMatch: does name contain word when every '.' of the word may stand for any one character?
// (bookkeeping only: counts the look-alikes a filter had to keep out)
func looseDotMatch(name, word string) bool {
	nr, wr := []rune(name), []rune(word)
	for i := 0; i+len(wr) <= len(nr); i++ {
		ok := true
		for j, ch := range wr {
			if ch != '.' && nr[i+j] != ch {
				ok = false
				break
			}
		}
		if ok {
			return true
		}
	}
	return false
}

func head(s string) string {
	s = strings.TrimSpace(s)
	if len(s) > 300 {
		s = s[:300]
	}
	return strings.ReplaceAll(s, "\n", " / ")
}
