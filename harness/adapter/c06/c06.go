// Package c06 checks that unused-import removal deletes nothing but unused single-type (and static member)
// imports: byte-level frame condition, soundness, completeness in every file of the directory, idempotence.
package c06

import (
	"io/ioutil"
	"os"
	"path/filepath"
	"sort"
	"strings"

	"github.com/modernizing/coca/pkg/application/refactor/unused"

	"verifharness/adapter/common"
	"verifharness/gen/importgen"
	"verifharness/oracle"
	"verifharness/run"
)

func cases(tier string) int {
	if tier == "thorough" {
		return 20000
	}
	return 1000
}

func cliEvery(tier string) int {
	if tier == "thorough" {
		return 40
	}
	return 10 // 100 CLI cases per quick run: each of the 9 spellings of the project directory about 11 times
}

var Check = &run.Check{
	ID:    "C06",
	Level: "exploration",
	Rule: "case = generated directory (flat / nested packages / Maven layout) of 1-8 conventional Java files (class, abstract class, interface, enum), each with 0-10 import declarations, one per line, " +
		"at any line after the package line (license header before the package line, 0-3 blank lines, line / block / multi-line block comments between imports, trailing comment, indentation, LF or CRLF, with or without final newline); " +
		"every import is PLANTED with kind (single-type / wildcard / static method / static constant / static wildcard) and with the exact set of roles in which its simple name is used in that file " +
		"(type of field/parameter/local/return, array, varargs, generic argument, bound, extends/implements, cast, instanceof, class literal, annotation on class/method/field/parameter/local with and without arguments, " +
		"new incl. diamond/array/anonymous/argument, static receiver of a call or field, method reference, catch incl. multi-catch, throws, qualifier of a nested type/annotation/exception in two-, three- and four-segment names, " +
		"unqualified call of a statically imported method, bare read of a statically imported constant in 11 positions) or none; per-file profile none / clean / dirty / all-unused, same simple names used in one file and unused in another; production classes named Contest / Latest / Protests / OrderBacktests ...; real *Test.java / *Tests.java files as bystanders; class, annotation, exception and static member names with non-ASCII letters (Überweisung, Geprüft, 订单, GEBÜHR, prüfe) in every role; " +
		"run through unused.NewRemoveUnusedImportApp(dir).Analysis()+Refactoring() twice, every Nth case through `coca refactor -m cfg -p dir` twice, the project directory spelled in rotation as absolute path, with trailing slash, relative, ./relative, relative/, '.', '..', sub/.., ../name (cwd chosen accordingly); " +
		"non-trivial = >= 2 files with planted-unused imports, each of which also holds >= 1 import that must be kept; distinct = hash of (layout, per file: type kind, header, per import: kind, roles, gap, style, line ending)",
	Assumptions: []string{
		"every generated file is accepted by coca's own Java parser (rejects are counted as inconclusive)",
		"an import whose simple name occurs only inside a comment, a Javadoc {@link} or a string literal may be deleted or kept (counted as ambiguous, never asserted)",
		"an unqualified call of a statically imported method and a bare read of a statically imported constant are references to the import's simple name (the statement says 'referenced nowhere else in its file')",
		"not generated: several imports on one line, multi-line imports, duplicate imports, fully-qualified uses of an imported name, a simple name that is also declared in the file, test files / .gitignore (skipped by design)",
		"lines are '\\n'-separated; for CRLF files the '\\r' belongs to the line",
		"files named *Test.java / *Tests.java (exactly this case) are test sources the tool's walk skips by design: their unused imports may stay (counted), frame / soundness / idempotence still apply; a name ending in lower-case test/tests (Contest.java) is an ordinary file",
		"`coca refactor -m cfg -p dir` runs MoveClassApp.Analysis (read-only; the config file is not opened) and then the unused-import removal; that is the only CLI route to the removal",
	},
	Cases: cases,
	Floor: func(tier string) int {
		if tier == "thorough" {
			return 800
		}
		return 40
	},
	Run:        runCase,
	MaxSamples: 3,
}

func listFiles(dir string) map[string]bool {
	out := map[string]bool{}
	filepath.Walk(dir, func(path string, fi os.FileInfo, err error) error {
		if err == nil && fi.Mode().IsRegular() {
			rel, _ := filepath.Rel(dir, path)
			out[filepath.ToSlash(rel)] = true
		}
		return nil
	})
	return out
}

func first(s string) string {
	s = strings.TrimSpace(s)
	if len(s) > 400 {
		s = s[:400]
	}
	return strings.ReplaceAll(s, "\n", " / ")
}

func runCase(c *run.Ctx, o *run.Outcome) {
	opts := importgen.Opts{MinFiles: 1, MaxFiles: 8, MaxImports: 10}
	switch {
	case c.Index%8 == 3:
		opts.MaxFiles = 1 // the shape of the repository's own test: one file
	case c.Index%4 != 0:
		opts.MinFiles = 2 // the multi-file dimension is the point of this check
	}
	p := importgen.Generate(c.Rng, opts)
	if err := importgen.SelfCheck(p); err != nil {
		o.SetInconclusive("generator self-check: " + err.Error())
		return
	}
	for i := range p.Files {
		if ne, msg := common.JavaSyntaxErrors(p.Files[i].Text); ne > 0 {
			o.SetInconclusive("generated file rejected by coca's Java parser: " + msg)
			return
		}
	}
	// what the case exercises
	filesWithUnused, keptInEach := 0, true
	for i := range p.Files {
		f := &p.Files[i]
		o.Count("files", 1)
		o.Count("files_"+f.TypeKind, 1)
		o.Count("files_profile_"+f.Profile, 1)
		if f.CRLF {
			o.Count("files_crlf", 1)
		}
		if low := strings.ToLower(f.TypeName); !f.Bystander && (strings.HasSuffix(low, "test") || strings.HasSuffix(low, "tests")) {
			o.Count("files_main_name_ends_in_lower_case_test", 1)
		}
		if f.Bystander {
			o.Count("files_test_by_name_bystander", 1)
		} else if f.CountUnused() > 0 {
			filesWithUnused++
			if f.CountMustKeep() == 0 {
				keptInEach = false
			}
		}
		for k := range f.Imports {
			im := &f.Imports[k]
			o.Count("imports_planted", 1)
			o.Count("imports_planted_"+im.Kind, 1)
			for _, r := range im.Roles {
				o.Seen("roles", r)
			}
			o.Seen("gaps", im.Gap)
			o.Seen("styles", im.Style)
		}
	}
	o.Count("files_with_unused", filesWithUnused)
	o.Shape = run.ShapeHash(p.ShapeKey())
	o.NonTrivial = filesWithUnused >= 2 && keptInEach
	o.Seen("layouts", p.Layout)
	o.Seen("file_counts", string(rune('0'+len(p.Files))))

	dir := filepath.Join(c.Scratch(), "proj")
	for i := range p.Files {
		path := filepath.Join(dir, filepath.FromSlash(p.Files[i].Rel))
		if err := os.MkdirAll(filepath.Dir(path), 0o755); err != nil {
			o.SetInconclusive("cannot write project: " + err.Error())
			return
		}
		if err := ioutil.WriteFile(path, []byte(p.Files[i].Text), 0o644); err != nil {
			o.SetInconclusive("cannot write project: " + err.Error())
			return
		}
	}
	planted := listFiles(dir)

	useCLI := c.CocaBin != "" && c.Index%cliEvery(c.Tier) == 5
	cfg := filepath.Join(c.Scratch(), "move.config")
	// the CLI slice names the project directory in every legal way a user may (absolute, relative, ".", "..", ...);
	// the spelling rotates over the CLI cases and is part of every signature of a CLI case
	cliCwd, cliArg, cliRoot := c.Scratch(), dir, ""
	if useCLI {
		o.Count("cli_cases", 1)
		ioutil.WriteFile(cfg, nil, 0o644)
		cliCwd, cliArg, cliRoot = common.SpellRoot(c.Index/cliEvery(c.Tier), dir, c.Scratch())
		o.Count("cli_root_spelled_"+cliRoot, 1)
		o.Seen("cli_root_spellings", cliRoot)
	}
	witness := map[string]interface{}{"project": p, "cli": useCLI, "cli_cwd": cliCwd, "cli_p_argument": cliArg, "cli_root_spelling": cliRoot}
	o.Witness = witness

	// one removal run; returns false when the run itself failed (already reported)
	removal := func(which string) bool {
		if useCLI {
			res := common.RunCLI(c.CocaBin, cliCwd, nil, "refactor", "-m", cfg, "-p", cliArg)
			if res.TimedOut {
				o.SetInconclusive("cli watchdog")
				return false
			}
			if res.ExitCode != 0 || strings.Contains(res.Stderr, "panic:") {
				witness["cli_stderr_"+which] = first(res.Stderr)
				o.Violate("cli-crash/"+which+"-run~cli-root:"+cliRoot, "`coca refactor -m cfg -p %s` in %s (%s run, %d files) exit %d: %s", cliArg, cliCwd, which, len(p.Files), res.ExitCode, first(res.Stderr))
				return false
			}
			return true
		}
		panicked, val, site := run.Guard(func() {
			app := unused.NewRemoveUnusedImportApp(dir)
			results := app.Analysis()
			app.Refactoring(results)
		})
		if panicked {
			o.Violate("panic@"+site+"/"+which+"-run", "unused-import removal (%s run, %d files) panicked: %s", which, len(p.Files), val)
			return false
		}
		return true
	}
	read := func() map[string]string {
		out := map[string]string{}
		for i := range p.Files {
			if b, err := ioutil.ReadFile(filepath.Join(dir, filepath.FromSlash(p.Files[i].Rel))); err == nil {
				out[p.Files[i].Rel] = string(b)
			}
		}
		return out
	}

	ok1 := removal("first")
	after1 := read()
	now := listFiles(dir)
	var extra, missing []string
	for f := range now {
		if !planted[f] {
			extra = append(extra, f)
		}
	}
	for f := range planted {
		if !now[f] {
			missing = append(missing, f)
		}
	}
	sort.Strings(extra)
	sort.Strings(missing)
	ok2 := false
	var after2 map[string]string
	if ok1 {
		ok2 = removal("second")
		after2 = read()
	}
	obs := map[string]oracle.ImpObserved{}
	for i := range p.Files {
		rel := p.Files[i].Rel
		ob := oracle.ImpObserved{}
		ob.After, ob.AfterOK = after1[rel]
		if ok1 && ok2 {
			ob.SecondRan = true
			ob.After2, ob.After2OK = after2[rel]
		}
		obs[rel] = ob
	}
	witness["after_first_run"] = after1
	witness["after_second_run"] = after2

	ms, st := oracle.ImpCheck(p, obs, extra, missing)
	o.Count("imports_must_keep", st.MustKeep)
	o.Count("imports_must_keep_kept", st.Kept)
	o.Count("imports_unused_planted", st.Unused)
	o.Count("imports_unused_deleted", st.UnusedDeleted)
	o.Count("bystander_unused_imports_left", st.BystanderUnusedKept)
	o.Count("non_ascii_name_must_keep", st.NonASCIIMustKeep)
	o.Count("non_ascii_name_must_keep_kept", st.NonASCIIKept)
	o.Count("non_ascii_name_unused_planted", st.NonASCIIUnused)
	o.Count("non_ascii_name_unused_deleted", st.NonASCIIUnusedDeleted)
	o.Count("imports_ambiguous_planted", st.Ambiguous)
	o.Count("imports_ambiguous_deleted", st.AmbiguousDeleted)
	o.Count("lines_deleted", st.LinesDeleted)
	o.Count("lines_deleted_not_import", st.NonImportLinesDeleted)
	o.Count("files_changed_by_first_run", st.FilesChanged)
	o.Count("second_runs_compared_files", st.SecondRunsCompared)
	o.Count("second_runs_unchanged_files", st.SecondRunsUnchanged)
	var keys []string
	for k := range st.RolesKept {
		keys = append(keys, k)
	}
	sort.Strings(keys)
	for _, k := range keys {
		o.Count("kept_with_role_"+k, st.RolesKept[k])
	}
	for _, m := range ms {
		if useCLI {
			o.Violate(m.Sig+"~cli-root:"+cliRoot, "[`coca refactor -m cfg -p %s`, project directory spelled %s] %s", cliArg, cliRoot, m.Msg)
			continue
		}
		o.Violate(m.Sig, "%s", m.Msg)
	}
	if c.Index < 64 {
		smp := map[string]interface{}{"layout": p.Layout, "cli": useCLI}
		var fs []map[string]interface{}
		for i := range p.Files {
			f := &p.Files[i]
			e := map[string]interface{}{"rel": f.Rel, "type_kind": f.TypeKind, "profile": f.Profile, "imports": len(f.Imports), "unused": f.CountUnused(), "must_keep": f.CountMustKeep(),
				"bytes_before": len(f.Text), "bytes_after": len(after1[f.Rel])}
			if i < 2 && len(f.Text) < 2500 {
				e["before"] = f.Text
				e["after"] = after1[f.Rel]
			}
			fs = append(fs, e)
		}
		smp["files"] = fs
		o.Sample = smp
	}
}
