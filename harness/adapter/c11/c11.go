// Package c11 checks that the test-smell report contains exactly the findings evidenced in the test sources
// (tbs.TbsApp.AnalysisPath on JavaFullApp.AnalysisFiles(test files); `coca tbs -p DIR`).
package c11

import (
	"encoding/json"
	"fmt"
	"io/ioutil"
	"os"
	"path/filepath"
	"sort"
	"strings"

	"github.com/modernizing/coca/pkg/adapter/cocafile"
	"github.com/modernizing/coca/pkg/application/analysis/javaapp"
	"github.com/modernizing/coca/pkg/application/tbs"
	"github.com/modernizing/coca/pkg/domain/core_domain"

	"verifharness/adapter/common"
	"verifharness/gen/testsmellgen"
	"verifharness/oracle"
	"verifharness/run"
)

func cliEvery(tier string) int {
	if tier == "thorough" {
		return 21
	}
	return 16
}

func cases(tier string) int {
	if tier == "thorough" {
		return 6300 // 6000 in-process + 300 through the CLI
	}
	return 320 // 300 + 20
}

var Check = &run.Check{
	ID:    "C11",
	Level: "exploration",
	Rule: "case = generated JUnit-style tree: 1-4 test classes (*Test.java / *Tests.java, or any name under [module/]src/test/java/<package dirs>) + 0-2 production classes with the same patterns, in flat / nested-package / Maven layouts; ordinary names containing TestData / Testdata / testdata occur as class names (1 in 7) and as package directories (1 in 6 of the nested / Maven trees), the documented exclusion spelling testData never; " +
		"every class has 1-5 methods annotated @Test / @Ignore / both in either order (own lines, one line, on the declaration line, comments between, one annotation over several lines; with and without annotation arguments), 0-3 helper methods with or without assertions " +
		"(called unqualified, this-qualified or class-qualified), other methods without @Test/@Ignore (also @Before/@After/... and annotations whose names merely end in Test / Ignore: @BeforeTest, @AfterTest, @JsonIgnore, @XmlIgnore, on helpers too) carrying the same patterns, and a static method other test classes call; in nested / Maven layouts 3 of 10 trees also hold two test classes of the SAME simple name in different packages, each with a helper of the same name (one asserting, one not) and a test that reaches an assertion only through it; " +
		"test bodies are assembled from planted evidence in random order, each call recorded with its line: System.out.print/println/printf x0-7, Thread.sleep x0-5, two-argument calls with identical arguments x0-3 (assertions and plain calls; also with arguments longer than 64 characters, identical or differing only near their end), " +
		"assertion methods of each of the seven documented prefixes (unqualified, receiver, static-qualified, chained, nested in arguments) with multiplicities 1-7 (4/5/6 emphasised), plain calls (also one plain method x5-7), " +
		"method references passed as arguments (Thread::sleep, System.out::println/print, Assert::assertTrue, Assertions::assertNotNull, builder::append; also in helpers and other methods), look-alikes (System.err.println, System.out.flush/format, writer.println, timer.sleep, TimeUnit.SECONDS.sleep, Thread.yield), new expressions, 1 file in 5 starts with 1-3 empty / white-space-only lines, commented-out evidence, blocks (if/for/try), two statements on a line, argument lists continued on the next line; " +
		"bodies with no call, exactly one call, exactly two calls are drawn deliberately. Observed: TbsApp.AnalysisPath wired as cmd/tbs.go does (the directory mostly as absolute path, in 2 of 7 cases with a trailing separator or as DIR/zzcwd/..); every Nth case the CLI in twelve configurations in turn: the project directory spelled abs, abs --sort, abs-slash, rel, dot-rel, rel-slash, dot, dotdot, sub-dotdot, via-sibling (common.SpellRoot, working directory chosen accordingly), and `-p .` / `-p src/test/java` from the root of a Maven tree that holds a test class without the Test/Tests suffix: coca_reporter/tbs.json, the printed count and table. " +
		"non-trivial = >= 1 test method with >= 2 different kinds of evidence and >= 1 method or file that must yield nothing; distinct = hash of the tree shape (layout, roles, annotation forms, per-method evidence multiset; no names or literals)",
	Assumptions: []string{
		"every generated file is accepted by coca's own Java parser (rejects are counted as inconclusive)",
		"Line is asserted only where the statement promises one (RedundantPrintTest / SleepyTest: the line on which the call's receiver.name( is written); for the other five kinds only the number of findings per file and type is compared, their Line is used only to name the planted method a surplus or missing finding belongs to",
		"'an assertion' = a call whose method name starts, case-insensitively, with one of the seven documented prefixes; non-assertion names never start with one",
		"not generated because the statement leaves it open: bodies whose only calls are `new` expressions; print / sleep / redundant evidence inside a helper that a test calls; helpers calling helpers; one assertion name with two receiver forms or arities in one body; an assertion method that reaches 5 calls only together with helper bodies; annotations after other modifiers; fully-qualified annotation names; System.out.print* / Thread.sleep written over two lines before the method name",
		"a SleepyTest / RedundantPrintTest at the line of a method reference Thread::sleep / System.out::print* (in a test method or a helper it calls) is neither demanded nor forbidden: the statement speaks of calls; every other finding of such a tree is demanded and the scan must return (a panic is a violation). Assertion references (Assert::assertTrue) are planted only where they cannot change a finding (the body asserts directly and calls no assertion of that name)",
		"Description of a finding and the order of findings are not asserted",
	},
	Cases: cases,
	Floor: func(tier string) int {
		if tier == "thorough" {
			return 1500
		}
		return 80
	},
	Run: runCase,
}

type tbsJSON struct {
	FileName    string
	Type        string
	Description string
	Line        int
}

func first(s string) string {
	s = strings.TrimSpace(s)
	if len(s) > 300 {
		s = s[:300]
	}
	return strings.ReplaceAll(s, "\n", " / ")
}

// cliConfig is one way of calling `coca tbs` on the generated project.
type cliConfig struct {
	spell     int    // common.SpellRoot pick (kind of spelling of the project directory); -1: special
	special   string // "src/test/java": working directory = project, -p src/test/java
	sort      bool
	mavenRoot bool // generate a Maven tree with src/ in the root and a test class that is one by directory only
}

var cliConfigs = []cliConfig{
	{spell: 0},                  // abs
	{spell: 0, sort: true},      // abs --sort
	{spell: 5, mavenRoot: true}, // dot, on a Maven root
	{spell: -1, special: "src/test/java", mavenRoot: true},
	{spell: 1}, // abs-slash
	{spell: 2}, // rel
	{spell: 3}, // dot-rel
	{spell: 6}, // dotdot
	{spell: 7}, // sub-dotdot
	{spell: 8}, // via-sibling
	{spell: 4}, // rel-slash
	{spell: 5}, // dot, any layout
}

func runCase(c *run.Ctx, o *run.Outcome) {
	// CLI slice: every Nth case, twelve configurations in turn (see cliConfigs): the project directory named in every
	// legal way (common.SpellRoot), --sort, and two special ones on a Maven tree whose src/ lies in the working directory
	useCLI := c.CocaBin != "" && c.Index%cliEvery(c.Tier) == 0
	cfg := cliConfigs[(c.Index/cliEvery(c.Tier))%len(cliConfigs)]
	var opt testsmellgen.Opts
	if useCLI && cfg.mavenRoot {
		opt.MavenRoot = true // src/test/java directly below the working directory, with a class that is a test file by directory only
	}
	t := testsmellgen.GenerateWith(c.Rng, opt)
	if err := testsmellgen.SelfCheck(t); err != nil {
		o.SetInconclusive("generator self-check: " + err.Error())
		return
	}
	for _, f := range t.Files {
		if ne, msg := common.JavaSyntaxErrors(f.Text); ne > 0 {
			o.SetInconclusive("generated file rejected by coca's Java parser: " + msg)
			return
		}
	}
	dir := filepath.Join(c.Scratch(), "proj")
	files := map[string]string{}
	absToRel := map[string]string{}
	var plantedTestFiles []string
	for _, f := range t.Files {
		path := filepath.Join(dir, filepath.FromSlash(f.RelPath))
		if err := os.MkdirAll(filepath.Dir(path), 0o755); err != nil {
			o.SetInconclusive("cannot write tree: " + err.Error())
			return
		}
		if err := ioutil.WriteFile(path, []byte(f.Text), 0o644); err != nil {
			o.SetInconclusive("cannot write tree: " + err.Error())
			return
		}
		files[f.RelPath] = f.Text
		absToRel[path] = f.RelPath
		if f.IsTest() {
			plantedTestFiles = append(plantedTestFiles, path)
		}
	}
	sort.Strings(plantedTestFiles)
	resolveFrom := dir // working directory of the command whose report is read (relative file names are relative to it)
	relOf := func(name string) string { return absToRel[common.AbsFrom(resolveFrom, name)] }

	// what the monitor is looking at
	expected := oracle.TbsExpected(t)
	kindsSeen := map[string]bool{}
	richMethod, mustBeSilent := false, false
	for _, f := range t.Files {
		o.Count("files_"+f.Role, 1)
		if f.IsTest() && f.LeadingBlankLines > 0 {
			o.Count("test_files_starting_with_blank_lines", 1)
			for _, m := range f.Methods {
				if m.IsTestMethod() {
					for _, call := range m.Calls {
						if call.Kind == testsmellgen.KindPrint || call.Kind == testsmellgen.KindSleep {
							o.Count("print_sleep_calls_in_files_starting_with_blank_lines", 1)
						}
					}
				}
			}
		}
		if f.IsTest() {
			if l := strings.ToLower(f.Class); strings.Contains(l, "testdata") {
				o.Count("test_files_with_TestData_or_Testdata_in_class_name", 1)
			}
			if l := strings.ToLower(filepath.Dir(f.RelPath)); strings.Contains(l, "testdata") {
				o.Count("test_files_under_testdata_or_Testdata_package_dir", 1)
			}
		}
		if !f.IsTest() {
			mustBeSilent = true
		}
		for _, m := range f.Methods {
			if !f.IsTest() || !m.IsTestMethod() {
				mustBeSilent = true
				if len(m.Calls) > 0 {
					o.Count("methods_that_must_yield_nothing", 1)
				}
				if f.IsTest() {
					for _, ref := range m.Refs {
						o.Count("planted_method_references_in_non_test_methods_"+ref.Form, 1)
					}
					for _, a := range m.Annos {
						if strings.HasSuffix(a.Name, "Test") || strings.HasSuffix(a.Name, "Ignore") {
							o.Count("non_test_methods_annotated_@"+a.Name, 1)
							o.Seen("lookalike_annotations", a.Name+"/"+m.Role)
						}
					}
				}
				continue
			}
			o.Count("test_methods", 1)
			for _, ref := range m.Refs {
				o.Count("planted_method_references_in_test_methods_"+ref.Form, 1)
			}
			o.Count("test_methods_annotated_"+m.AnnoClass(), 1)
			o.Count("test_methods_calls_"+capN(len(m.Calls), 3), 1)
			o.Seen("annotation_layouts", m.AnnoClass()+"/"+m.AnnoLayout)
			kinds := map[string]bool{}
			for _, call := range m.Calls {
				kinds[call.Kind] = true
				kindsSeen[call.Kind] = true
				o.Count("planted_calls_"+call.Kind, 1)
				if call.Kind == testsmellgen.KindAssert {
					o.Seen("assertion_prefixes", call.Prefix)
					o.Seen("assertion_forms", call.Prefix+"/"+call.Form)
				}
				if call.Kind == testsmellgen.KindHelper {
					o.Seen("helper_call_forms", call.Form)
				}
				if call.NArgs == 2 && strings.HasSuffix(call.Form, "long-arguments") {
					if call.Identical {
						o.Count("planted_two_argument_calls_long_identical_arguments", 1)
					} else {
						o.Count("planted_two_argument_calls_long_arguments_differing_near_the_end", 1)
					}
				}
			}
			if n, _ := oracle.TbsMaxSameAssertion(m); n >= 3 {
				o.Count("test_methods_same_assertion_x"+capN(n, 7), 1)
			}
			if via := oracle.TbsAssertionVia(f, m); via == "helper" {
				o.Count("test_methods_assertion_only_via_helper", 1)
			}
			if len(kinds) >= 2 {
				richMethod = true
			}
		}
	}
	for _, e := range expected {
		o.Count("expected_"+e.Type, 1)
	}
	// two test classes of one simple name in different packages, each with a helper of the same name
	if shared := oracle.TbsSharedClassNames(t); len(shared) > 0 {
		o.Count("trees_with_same_named_test_classes", 1)
		viaAsserting, viaSilent := 0, 0
		for _, f := range t.Files {
			if !f.IsTest() || !shared[f.Class] {
				continue
			}
			for _, m := range f.Methods {
				if m.Profile != "twin" {
					continue
				}
				for _, call := range m.Calls {
					if call.Kind == testsmellgen.KindHelper && strings.HasPrefix(call.Target, "helperTwin") {
						if oracle.TbsAssertionVia(f, m) == "helper" {
							viaAsserting++
						} else {
							viaSilent++
						}
						break
					}
				}
			}
		}
		o.Count("same_named_classes_tests_asserting_only_via_same_named_helper", viaAsserting)
		o.Count("same_named_classes_tests_whose_same_named_helper_does_not_assert", viaSilent)
		if viaAsserting > 0 && viaSilent > 0 {
			o.Count("trees_with_same_named_classes_and_helpers_differing_in_assertion", 1)
		}
	}
	o.Seen("layouts", t.Layout)
	o.Shape = run.ShapeHash(testsmellgen.Shape(t))
	o.NonTrivial = richMethod && mustBeSilent

	var observed []oracle.TbsFinding
	rootSig := "" // how the analysed directory was spelled (CLI cases, and the in-process cases with an unusual spelling)
	witness := map[string]interface{}{"files": files, "layout": t.Layout, "expected": expectList(expected)}
	o.Witness = witness
	if useCLI {
		o.Count("cli_cases", 1)
		sorted := cfg.sort
		// fresh per case: `coca tbs` caches identifiers in coca_reporter/ below its working directory
		var cwd, rootArg, kind string
		if cfg.spell >= 0 {
			cwd, rootArg, kind = common.SpellRoot(cfg.spell, dir, c.Scratch())
		} else {
			cwd, rootArg, kind = dir, cfg.special, "rel-subdir-"+strings.ReplaceAll(cfg.special, "/", "-")
		}
		resolveFrom = cwd
		args := []string{"tbs", "-p", rootArg}
		if sorted {
			args = append(args, "--sort")
			o.Count("cli_cases_with_sort", 1)
		}
		o.Count("cli_root_spelled_"+kind, 1)
		o.Seen("cli_root_spellings", kind)
		rootSig = "/root-spelled-" + kind
		if cfg.mavenRoot {
			o.Count("cli_cases_on_maven_root_tree", 1)
			for _, f := range t.Files {
				if f.Role == testsmellgen.RoleTestByDir && strings.HasPrefix(f.RelPath, "src/test/java/") {
					o.Count("cli_relative_root_test_files_by_directory_only", 1)
				}
			}
		}
		witness["cli"] = strings.Join(args, " ") + "   (cwd " + cwd + ")"
		res := common.RunCLI(c.CocaBin, cwd, nil, args...)
		if res.TimedOut {
			o.SetInconclusive("cli watchdog")
			return
		}
		if res.ExitCode != 0 || strings.Contains(res.Stderr, "panic:") {
			o.Violate("cli-crash"+rootSig, "`coca tbs` exit %d: %s", res.ExitCode, first(res.Stderr))
			return
		}
		b, err := ioutil.ReadFile(filepath.Join(cwd, "coca_reporter", "tbs.json"))
		if err != nil {
			o.Violate("cli-no-output"+rootSig, "`coca tbs` did not write coca_reporter/tbs.json: %v", err)
			return
		}
		var list []tbsJSON
		if sorted {
			var byType map[string][]tbsJSON
			if err := json.Unmarshal(b, &byType); err != nil {
				o.Violate("cli-unreadable-output"+rootSig, "tbs.json (--sort) is not a map of finding lists: %v: %s", err, first(string(b)))
				return
			}
			var keys []string
			for k := range byType {
				keys = append(keys, k)
			}
			sort.Strings(keys)
			for _, k := range keys {
				for _, e := range byType[k] {
					if e.Type != k {
						o.Violate("cli-sort-group-holds-other-type"+rootSig, "tbs.json --sort: group %q holds a finding of type %q", k, e.Type)
					}
					list = append(list, e)
				}
			}
		} else if err := json.Unmarshal(b, &list); err != nil {
			o.Violate("cli-unreadable-output"+rootSig, "tbs.json is not a list of findings: %v: %s", err, first(string(b)))
			return
		}
		for _, e := range list {
			observed = append(observed, oracle.TbsFinding{Type: e.Type, FileName: e.FileName, Line: e.Line})
		}
		rows, total, hasTotal := oracle.TbsParseTable(res.Stdout)
		if !hasTotal || total != len(observed) {
			o.Violate("cli-printed-count-differs"+rootSig, "printed count %d (present=%v), tbs.json holds %d findings", total, hasTotal, len(observed))
		}
		if len(observed) <= 20 {
			o.Count("cli_tables_compared", 1)
			if !oracle.TbsSameMultiset(rows, observed) {
				o.Violate("cli-table-differs-from-json"+rootSig, "table rows %v, tbs.json %v", rows, observed)
			}
		} else if len(rows) > 0 {
			o.Count("cli_tables_beyond_20", 1)
		}
	} else {
		var selected []string
		// the in-process wiring takes a directory: mostly the absolute path, sometimes another legal spelling of it
		walkRoot := dir
		switch c.Index % 7 {
		case 2:
			walkRoot = dir + string(filepath.Separator)
			rootSig = "/root-spelled-abs-slash"
		case 4:
			os.MkdirAll(filepath.Join(dir, "zzcwd"), 0o755)
			walkRoot = filepath.Join(dir, "zzcwd") + string(filepath.Separator) + ".."
			rootSig = "/root-spelled-sub-dotdot"
		}
		if rootSig != "" {
			o.Count("inprocess_root_spelled_"+strings.TrimPrefix(rootSig, "/root-spelled-"), 1)
		}
		witness["root"] = walkRoot
		panicked, val, site := run.Guard(func() {
			// as cmd/tbs.go: test files -> identifiers of the test files -> full pass over the test files -> TbsApp
			selected = cocafile.GetJavaTestFiles(walkRoot)
			identifierApp := javaapp.NewJavaIdentifierApp()
			identifiers := identifierApp.AnalysisFiles(selected)
			identifiersMap := core_domain.BuildIdentifierMap(identifiers)
			app := javaapp.NewJavaFullApp()
			classNodes := app.AnalysisFiles(identifiers, selected)
			result := tbs.NewTbsApp().AnalysisPath(classNodes, identifiersMap)
			for _, r := range result {
				observed = append(observed, oracle.TbsFinding{Type: r.Type, FileName: r.FileName, Line: r.Line})
			}
		})
		if panicked {
			o.Violate("panic@"+site, "test-smell analysis panicked: %s", val)
			return
		}
		// "computed from the test files only"
		got := append([]string{}, selected...)
		for i := range got {
			got[i] = common.AbsFrom(dir, got[i])
		}
		sort.Strings(got)
		if strings.Join(got, "\n") != strings.Join(plantedTestFiles, "\n") {
			o.Violate("test-file-selection"+rootSig, "files selected %v, planted test files %v", got, plantedTestFiles)
		}
	}
	witness["observed"] = observed
	o.Count("findings_observed", len(observed))
	o.Count("findings_expected", len(expected))

	ms, st := oracle.TbsCheck(t, observed, relOf)
	o.Count("findings_matched", st.Matched)
	o.Count("findings_left_open_at_method_references", st.Open)
	for typ, n := range st.Observed {
		o.Count("observed_"+typ, n)
	}
	// first (a case keeps at most 20 violations): the whole report is empty although findings are expected
	if rootSig != "" && len(observed) == 0 && len(expected) > 0 {
		o.Violate("report-empty-though-findings-expected"+rootSig, "no finding reported, %d expected (directory given as in witness)", len(expected))
	}
	for _, m := range ms {
		sig := m.Sig
		// mismatches about which file a finding names depend on how the directory was spelled: say so in the signature
		// (the per-method signatures stay as they are: they do not depend on the spelling)
		if strings.HasPrefix(sig, "finding-names-unknown-file/") || strings.HasPrefix(sig, "finding-without-file-name/") {
			sig += rootSig
		}
		o.Violate(sig, "%s", m.Msg)
	}
	if c.Index < 64 {
		var names []string
		text := ""
		for _, f := range t.Files {
			names = append(names, f.RelPath+" ["+f.Role+"]")
			if text == "" && f.IsTest() && len(f.Text) < 2500 {
				text = f.Text
			}
		}
		o.Sample = map[string]interface{}{"files": names, "first_test_file": text, "expected": expectList(expected), "observed": observed, "via_cli": useCLI}
	}
}

func capN(n, max int) string {
	if n >= max {
		return fmt.Sprintf("%d+", max)
	}
	return fmt.Sprint(n)
}

func expectList(es []oracle.TbsExpect) []string {
	var out []string
	for _, e := range es {
		s := e.Type + " " + e.File + " method " + e.Method.Name
		if e.Line > 0 {
			s += fmt.Sprintf(" line %d", e.Line)
		}
		out = append(out, s)
	}
	return out
}
