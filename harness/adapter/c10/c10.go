// Package c10 checks coca's bad-smell report against the thresholds written in the C10 statement: generated
// classes / interfaces with planted method lengths, parameter counts, top-level if / switch counts, condition heights
// and method counts on and around every threshold are analysed through bs.BadSmellApp.AnalysisPath + IdentifyBadSmell
// (with every subset of ignored kinds), bs_domain.SortSmellByType, and - every Nth case - `coca bs -p DIR [-x kinds] [-s type]`.
package c10

import (
	"crypto/sha256"
	"encoding/json"
	"io/ioutil"
	"os"
	"path/filepath"
	"strconv"
	"strings"

	"github.com/modernizing/coca/pkg/application/bs"
	"github.com/modernizing/coca/pkg/domain/bs_domain"

	"verifharness/adapter/common"
	"verifharness/gen/smellgen"
	"verifharness/oracle"
	"verifharness/run"
)

const (
	quickSingles = 400     // classes: all boundary points first, random classes after them
	quickIgnore  = 3 * 128 // 3 rich projects x every subset of the 7 kinds
	quickTotal   = quickSingles + quickIgnore
	thoroughAll  = 6000 + 9*128 // 6000 classes + 9 rich projects x 128 subsets
)

func cases(tier string) int {
	if tier == "thorough" {
		return thoroughAll
	}
	return quickTotal
}

// cliEvery is odd, so the CLI slice walks through the ignore masks too: quick 684/27 = 26 runs, thorough 7152/17 = 421.
func cliEvery(tier string) int {
	if tier == "thorough" {
		return 17
	}
	return 27
}

// classify maps a case index to (mode, sub): "single" sub = class number, "ignore" sub = replica*128 + mask.
// The thorough list extends the quick one.
func classify(index int) (string, int) {
	switch {
	case index < quickSingles:
		return "single", index
	case index < quickTotal:
		return "ignore", index - quickSingles
	}
	j := index - quickTotal
	if j%8 == 7 && j/8 < 6*128 {
		return "ignore", quickIgnore + j/8
	}
	return "single", quickSingles + j - min(j/8, 6*128) // j/8 ignore cases lie before j
}

func min(a, b int) int {
	if a < b {
		return a
	}
	return b
}

var Check = &run.Check{
	ID:    "C10",
	Level: "exploration",
	Rule: "case = directory of generated Java files, one conventional class or interface per file. (a) bounded-exhaustive part: the first " + strconv.Itoa(smellgen.BoundaryCount()) +
		" cases are one class each with ONE dimension at threshold-2 … threshold+2: method length (closing brace - declaration line) 28-32 x {instance, static, interface default method} x {brace on the line, brace on next line, wrapped parameter list}; " +
		"parameters 3-7 x {instance, static, abstract, interface abstract, interface default} x {last parameter varargs or not}; non-getter/setter methods 18-22 x {0,3 getters/setters} x {class, abstract class, interface}; " +
		"{0,1,2,4 getters/setters} x {0,1,2 other methods} x {class, interface} (data class / lazy element and their near misses); top-level ifs 6-10 x {no decoy, ifs nested in loops/try/switch, ifs inside the branches of one top-level if} x {class, interface default}; " +
		"top-level switches 6-10 x {no decoy, nested switches} x 2 forms; ifs/switches 7|8 x 7|8 in one method; condition height 2-6 lines x {if keyword on the condition's line, alone on the line before} x " +
		"{top-level in a class, top-level in an interface default method, nested in an if, nested in a loop/try, condition of a while}; one point per dimension and offset again in a file with \\r\\n line ends; else-if ladders at the boundaries (one top-level if with 5-9 else-if branches; 6-10 top-level ifs one of which has else-if branches; an else-if condition of 2-6 lines); every method-level dimension (length, parameters, ifs, switches, condition height) T-2…T+2 once more on an accessor-NAMED ordinary method (getReport(a,b,c,d,e,f), a 31-line setUpEverything()); length / parameters / ifs T-2…T+2 on methods (interface default, static, abstract, generic; class instance, static generic) whose keyword modifiers or own type-parameter list stand on the line above the return type; parameters T-2…T+2 x {class, interface default} with explicitly typed (and inferred) lambdas in the body. (b) random classes: 0-28 methods, every method draws parameters, if/switch counts, condition heights, " +
		"body length near the thresholds with probability 3/4, plus nested carriers, else-if chains (only far from the threshold), getters/setters, abstract methods, constructors, fields, comments and strings mentioning `if (`/`switch (`. " +
		"(c) ignore part: rich projects of 15 files (one of them, with every method-level kind at its boundary, always with \\r\\n line ends) in which each of the seven kinds has >= 2 findings with different sizes and a near miss, a third of the method-level findings sit on accessor-named methods, and longParameterList has >= 17 findings spread over 4 files with sizes unrelated to the file names, analysed with every one of the 2^7 subsets of kinds as ignore list (x3 projects quick, x9 thorough). " +
		"Every case: AnalysisPath + IdentifyBadSmell(nil) vs truth table; IdentifyBadSmell(ignore list) == full report minus the named kinds; SortSmellByType of that list in pipeline order AND in an order shuffled from the case stream: keys, permutation, sized kinds non-increasing. " +
		"Every Nth case instead through `coca bs -p DIR [-x kinds] [-s type]` reading coca_reporter/bs.json (same oracle), DIR spelled in rotation as abs, abs/, rel, ./rel, rel/, `.`, `..`, dir/sub/.., ../dir (common.SpellRoot); in-process AnalysisPath gets dir, dir/ or dir/zzcwd/.. . " +
		"non-trivial = at least one planted fact within 2 of a threshold; distinct = hash of (per class: kind, fields, constructors, per method: form, role, parameters, varargs, length, if/switch counts, decoy counts, condition heights; ignore mask; CLI/sort flags)",
	Assumptions: []string{
		"every generated file is accepted by coca's own Java parser (rejects are counted as inconclusive)",
		"`the line the declaration starts on`: keyword modifiers (public/static/default/abstract …) and/or the method's own type-parameter list may stand on the line above the return type - the declaration then starts on that upper line (they are its first tokens); otherwise modifiers, return type and name share a line. Method annotations and Javadoc tags on their own line are not generated (comments before a method end on the previous line)",
		"lambdas appear only as one-line expression lambdas in local initialisers; their (typed or inferred) parameters are not parameters of the enclosing method",
		"a top-level if/switch statement is a direct child of the method body's statement list; ifs/switches inside branches of if/else/for/while/do/try/switch/synchronized are nested and must not count. The `if` of an `else if` is the statement of the else branch of the if before it, hence nested: a ladder `if … else if … else if …` is ONE top-level if statement whatever its length, and the conditions of its else-if branches are not top-level if conditions. Labelled ifs and bare blocks are not generated",
		"the project directory may be named in every way a user legally can (absolute, with trailing separator, relative, ./relative, `.`, `..` from a sub-directory, dir/sub/.., ../dir from a sibling): the report is the same, with file names resolved from the working directory",
		"a condition's '(' is on the line of its first token and its ')' on the line of its last token, so its height is the same with or without the parentheses; the `if` keyword may stand alone on the line before (the finding's line is then the condition's line, not the keyword's)",
		"getter/setter = name `get`/`set` + upper-case letter; other method names never start with get/set (`settle`, `getaway`, `isReady` are not generated, the statement does not say what they are)",
		"accessor-named ordinary methods (getReport with 6 parameters, a 31-line setUpEverything) are methods: the four method-level kinds are expected for them like for any method; for largeClass/dataClass they count as getters/setters by name, and they are only generated in classes with >= 1 other ordinary method and < 18 ordinary methods, where the class-level verdicts do not depend on that reading",
		"methods = method declarations of the type (JLS: constructors are not methods); constructors are only generated in classes with >= 1 and != 19 ordinary methods, where either reading gives the same verdicts. A varargs parameter is a parameter",
		"longMethod is only expected for methods with a body (the statement measures to the closing brace); parameter lists of body-less methods wrap over at most 8 lines",
		"Size is asserted for longMethod (line difference), longParameterList (#parameters), largeClass (#non-getter/setter methods), repeatedSwitches (#ifs resp. #switches); for dataClass the statement does not say which number it is, so its value is only used for the ordering clause",
		"about one file in five (and one boundary point per dimension and offset) is written with \\r\\n line ends: the same lines and line numbers as with \\n. Lone \\r line ends are not generated (no conventional file has them; coca's lexer counts lines at \\n only)",
		"one type per file, no nested/anonymous/local types, lambdas, enums, records; refusedBequest, graphConnectedCall and Description are not compared; Line of class-level findings is not compared",
		"the in-process sort step passes the five sized kinds as predicate (cmd.isSmellHaveSize is unexported); the predicate coca really uses is exercised by the CLI slice only",
	},
	Cases:      cases,
	MaxSamples: 4,
	Floor: func(tier string) int {
		if tier == "thorough" {
			return 2000
		}
		return 200
	},
	Run: runCase,
}

type jsonSmell struct {
	EntityName  string
	Line        string
	BS          string
	Description string
	Size        int
}

func rel(base, name string) string {
	name = filepath.ToSlash(filepath.Clean(name))
	base = filepath.ToSlash(filepath.Clean(base))
	if strings.HasPrefix(name, base+"/") {
		return name[len(base)+1:]
	}
	return name
}

func toTruth(p *smellgen.Project) []oracle.SmellClassTruth {
	var out []oracle.SmellClassTruth
	for _, c := range p.Classes {
		ct := oracle.SmellClassTruth{File: c.RelPath, Kind: c.Kind, CRLF: c.CRLF}
		for i := range c.Methods {
			m := &c.Methods[i]
			mt := oracle.SmellMethodTruth{Name: m.Name, Form: m.Form, GetterSetter: m.GetterSetter(), AccessorNamed: m.AccessorNamed, HeadSplit: m.HeadSplit, HeadFirst: m.HeadFirst, TypedLambdaParams: m.TypedLambdaParams, Params: m.Params, Varargs: m.Varargs, Generic: m.Generic, HasBody: m.HasBody,
				StartLine: m.StartLine, CloseLine: m.CloseLine, TopIfs: m.TopIfs, TopSwitches: m.TopSwitches, DecoyLines: m.DecoyLines, ElseIfLines: m.ElseIfLines, InCRLFFile: c.CRLF}
			for _, cd := range m.Conds {
				mt.Conds = append(mt.Conds, oracle.SmellCondTruth{IfLine: cd.IfLine, StartLine: cd.StartLine, EndLine: cd.EndLine})
			}
			ct.Methods = append(ct.Methods, mt)
		}
		out = append(out, ct)
	}
	return out
}

func fromModels(base string, ms []bs_domain.BadSmellModel) []oracle.SmellFinding {
	var out []oracle.SmellFinding
	for _, m := range ms {
		out = append(out, oracle.SmellFinding{File: rel(base, m.File), Kind: m.Bs, Line: m.Line, Size: m.Size})
	}
	return out
}

// fromJSON: file names in the report are relative to the command's working directory when the -p argument was
// relative; they are resolved from there and then taken relative to the project directory.
func fromJSON(cwd, projDir string, ms []jsonSmell) []oracle.SmellFinding {
	var out []oracle.SmellFinding
	for _, m := range ms {
		out = append(out, oracle.SmellFinding{File: rel(projDir, common.AbsFrom(cwd, m.EntityName)), Kind: m.BS, Line: m.Line, Size: m.Size})
	}
	return out
}

func sizedKind(key string) bool { return oracle.SmellIsSized(key) }

func firstLine(s string) string {
	s = strings.TrimSpace(s)
	if i := strings.Index(s, "panic:"); i > 0 {
		s = s[i:]
	}
	if len(s) > 300 {
		s = s[:300]
	}
	return strings.ReplaceAll(s, "\n", " / ")
}

func panicSite(stderr string) string {
	for _, l := range strings.Split(stderr, "\n") {
		l = strings.TrimSpace(l)
		if strings.HasPrefix(l, "github.com/modernizing/coca/") {
			if j := strings.LastIndex(l, "("); j > 0 {
				l = l[:j]
			}
			return strings.TrimPrefix(l, "github.com/modernizing/coca/")
		}
	}
	return "?"
}

// accepted is the parser-acceptance filter, memoised per worker process by the file's text (the rich projects of the
// ignore part are the same 11 files for all 128 subsets; the verdict is a pure function of the text).
var acceptCache = map[[32]byte]acceptResult{}

type acceptResult struct {
	n     int
	first string
}

func accepted(text string) (int, string) {
	k := sha256.Sum256([]byte(text))
	if r, ok := acceptCache[k]; ok {
		return r.n, r.first
	}
	n, first := common.JavaSyntaxErrors(text)
	acceptCache[k] = acceptResult{n, first}
	return n, first
}

// countLists records how demanding the sorted lists of a report were: lists with >= 2 findings, and lists with >= 13
// findings from >= 3 files (Go's sort.Slice insertion-sorts up to 12 elements, larger inputs take the other path).
func countLists(o *run.Outcome, groups map[string][]oracle.SmellFinding) {
	for _, k := range oracle.SmellSizedKinds {
		if len(groups[k]) >= 2 {
			o.Count("sorted_sized_lists_with_2+_findings", 1)
		}
		files := map[string]bool{}
		for _, f := range groups[k] {
			files[f.File] = true
		}
		if len(groups[k]) >= 13 && len(files) >= 3 {
			o.Count("sorted_sized_lists_with_13+_findings_from_3+_files", 1)
		}
	}
}

func runCase(c *run.Ctx, o *run.Outcome) {
	r := c.Rng
	mode, sub := classify(c.Index)
	var p *smellgen.Project
	mask := 0
	switch {
	case mode == "ignore":
		mask = sub % 128
		// the project depends on the replica only, so that all 128 subsets are applied to the same classes
		p = smellgen.Rich(run.CaseRand("C10/rich", c.Seed, sub/128))
		o.Count("cases/ignore-subset-on-rich-project", 1)
	case sub < smellgen.BoundaryCount():
		p = smellgen.Boundary(sub, r.Fork())
		o.Count("cases/boundary-point(exhaustive part)", 1)
		o.Seen("boundary_points_enumerated", smellgen.BoundaryTag(sub))
	case r.Chance(1, 4):
		i := r.Intn(smellgen.BoundaryCount())
		p = smellgen.Boundary(i, r.Fork())
		o.Count("cases/boundary-point(revisited with other dressing)", 1)
	default:
		p = smellgen.Random(r.Fork())
		o.Count("cases/random-class", 1)
	}
	if mode == "single" && r.Bool() {
		mask = r.Intn(128)
	}
	if err := smellgen.SelfCheck(p); err != nil {
		o.SetInconclusive("generator self-check: " + err.Error())
		return
	}
	for _, cl := range p.Classes {
		if ne, first := accepted(cl.Text); ne > 0 {
			o.SetInconclusive("generated file rejected by coca's Java parser: " + first)
			return
		}
	}
	useCLI := c.CocaBin != "" && c.Index%cliEvery(c.Tier) == 0
	cliSort := useCLI && (c.Index/cliEvery(c.Tier))%3 != 0

	truth := toTruth(p)
	expected := oracle.SmellExpected(truth)
	points := oracle.SmellBoundaryPoints(truth)
	for _, pt := range points {
		o.Count("planted_near_threshold/"+pt, 1)
	}
	for i, cl := range p.Classes {
		if cl.CRLF {
			o.Count("files_with_crlf_line_ends", 1)
			for _, pt := range oracle.SmellBoundaryPoints(truth[i : i+1]) {
				o.Count("planted_near_threshold_in_crlf_files/"+pt, 1)
			}
		}
	}
	for _, e := range expected {
		o.Count("expected_full_report/"+e.Kind, 1)
		if strings.Contains(e.Ctx, "/crlf-file") {
			o.Count("expected_method_level_findings_in_crlf_files/"+e.Kind, 1)
		}
		if strings.Contains(e.Ctx, "/accessor-named-method") {
			o.Count("expected_findings_on_accessor_named_methods/"+e.Kind, 1)
		}
		if strings.Contains(e.Ctx, "/modifiers-on-previous-line") {
			o.Count("expected_findings_on_methods_with_modifiers_on_previous_line/"+e.Kind, 1)
		}
		if strings.Contains(e.Ctx, "/typed-lambda-parameters-in-body") {
			o.Count("expected_findings_on_methods_with_typed_lambdas/"+e.Kind, 1)
		}
	}
	nMethods := 0
	for _, cl := range p.Classes {
		o.Count("files", 1)
		o.Count("types/"+cl.Kind, 1)
		o.Count("constructors", cl.Ctors)
		for i := range cl.Methods {
			m := &cl.Methods[i]
			nMethods++
			o.Count("decoys/nested_ifs", m.NestedIfs)
			o.Count("decoys/nested_switches", m.NestedSwitches)
			o.Count("decoys/else_if_members", m.ElseIfs)
			if m.ElseIfs > 0 && m.TopIfs < oracle.SmellRepeatedT && m.TopIfs+m.ElseIfs >= oracle.SmellRepeatedT {
				o.Count("methods_where_top_level_ifs<8_but_with_else_if_branches>=8", 1)
			}
			if m.ElseIfs > 0 && m.TopIfs >= oracle.SmellRepeatedT {
				o.Count("methods_with_>=8_top_level_ifs_and_else_if_branches(size_must_stay_top_level_count)", 1)
			}
			o.Count("else_if_conditions_of_4+_lines", m.TallElseIfs)
			o.Count("decoys/tall_conditions_not_top_level_if", m.TallDecoys)
			o.Seen("method_forms", m.Form)
			for _, cd := range m.Conds {
				if cd.IfLine != cd.StartLine {
					o.Count("top_level_ifs_with_keyword_on_previous_line", 1)
				}
			}
			if m.Varargs {
				o.Count("methods_with_varargs", 1)
			}
			if m.AccessorNamed {
				o.Count("accessor_named_ordinary_methods", 1)
			}
			if m.HeadSplit {
				o.Count("methods_with_modifiers_on_previous_line", 1)
				o.Seen("first_token_of_modifier_line", m.Form+":"+m.HeadFirst)
				if m.HasBody && m.CloseLine-m.StartLine >= oracle.SmellMethodLenT-1 && m.CloseLine-m.StartLine <= oracle.SmellMethodLenT+2 {
					o.Count("methods_with_modifiers_on_previous_line/length_"+strconv.Itoa(m.CloseLine-m.StartLine), 1)
				}
			}
			if m.TypedLambdaParams > 0 {
				o.Count("methods_with_typed_lambda_parameters_in_body", 1)
				if m.Params <= oracle.SmellParamsT && m.Params+m.TypedLambdaParams > oracle.SmellParamsT {
					o.Count("methods_with_typed_lambda_parameters_in_body/own<=5_but_own+lambda>5", 1)
				}
			}
		}
	}
	o.Count("methods", nMethods)
	o.Seen("ignore_masks", strconv.Itoa(mask))
	o.NonTrivial = len(points) > 0
	o.Shape = run.ShapeHash(p.ShapeKey(), mask, useCLI, cliSort)

	dir := filepath.Join(c.Scratch(), "proj")
	files := map[string]string{}
	for _, cl := range p.Classes {
		path := filepath.Join(dir, filepath.FromSlash(cl.RelPath))
		os.MkdirAll(filepath.Dir(path), 0o755)
		if err := ioutil.WriteFile(path, []byte(cl.Text), 0o644); err != nil {
			o.SetInconclusive("cannot write case file: " + err.Error())
			return
		}
		files[cl.RelPath] = cl.Text
	}
	named := oracle.SmellMaskKinds(mask)
	witness := map[string]interface{}{"tag": p.Tag, "files": files, "planted": truth, "ignore": named, "expected_full_report": expected}
	o.Witness = witness
	sigSuffix := "" // how the project directory was named, when not by its plain absolute path
	report := func(mm []oracle.SmellMismatch, where string) {
		for _, m := range mm {
			o.Violate(m.Sig+sigSuffix, "[%s] %s", where, m.Msg)
		}
	}
	var shown []oracle.SmellFinding

	if useCLI {
		o.Count("cli_cases", 1)
		// the project directory spelled in one of the nine legal ways, rotated over the CLI cases
		cwd, arg, rootKind := common.SpellRoot(c.Index/cliEvery(c.Tier), dir, c.Scratch())
		o.Count("cli_root_spelled_"+rootKind, 1)
		sigSuffix = "@cli-root=" + rootKind
		witness["cwd"], witness["root_spelling"] = cwd, rootKind
		args := []string{"bs", "-p", arg}
		if mask != 0 {
			perm := r.Perm(len(named))
			var xs []string
			for _, i := range perm {
				xs = append(xs, named[i])
			}
			args = append(args, "-x", strings.Join(xs, ","))
			o.Count("cli_cases_with_ignore_list", 1)
		}
		if cliSort {
			args = append(args, "-s", "type")
			o.Count("cli_cases_sorted_by_type", 1)
		}
		where := "coca " + strings.Join(args, " ")
		witness["boundary"] = where
		res := common.RunCLI(c.CocaBin, cwd, nil, args...)
		if res.TimedOut {
			o.SetInconclusive("cli watchdog")
			return
		}
		if strings.Contains(res.Stderr, "panic:") || strings.Contains(res.Stderr, "fatal error:") {
			o.Violate("panic@"+panicSite(res.Stderr), "`%s` crashed (exit %d): %s", where, res.ExitCode, firstLine(res.Stderr))
			return
		}
		if res.ExitCode != 0 {
			o.Violate("cli-exit", "`%s` exit %d: %s", where, res.ExitCode, firstLine(res.Stderr))
			return
		}
		b, err := ioutil.ReadFile(filepath.Join(cwd, "coca_reporter", "bs.json"))
		if err != nil {
			o.Violate("cli-no-output", "`%s` wrote no coca_reporter/bs.json: %v", where, err)
			return
		}
		var observed []oracle.SmellFinding
		if cliSort {
			var js map[string][]jsonSmell
			if err := json.Unmarshal(b, &js); err != nil {
				o.Violate("cli-json-malformed", "bs.json of `%s` is not a map of lists: %v", where, err)
				return
			}
			groups := map[string][]oracle.SmellFinding{}
			for k, v := range js {
				groups[k] = fromJSON(cwd, dir, v)
			}
			witness["observed_sorted"] = groups
			report(oracle.SmellCheckGroups(groups), where)
			o.Count("sorted_reports_checked", 1)
			countLists(o, groups)
			observed = oracle.SmellFlatten(groups)
		} else {
			var js []jsonSmell
			if err := json.Unmarshal(b, &js); err != nil {
				o.Violate("cli-json-malformed", "bs.json of `%s` is not a list: %v", where, err)
				return
			}
			observed = fromJSON(cwd, dir, js)
		}
		witness["observed"] = observed
		mm, matched, skipped := oracle.SmellCompare(truth, expected, observed, named)
		report(mm, where)
		o.Count("findings_observed", len(observed))
		o.Count("findings_matched", matched)
		o.Count("findings_of_undocumented_kinds_skipped", skipped)
		shown = observed
	} else {
		witness["boundary"] = "bs.BadSmellApp.AnalysisPath + IdentifyBadSmell + bs_domain.SortSmellByType"
		// the same directory named plainly, with a trailing separator, or through an empty sub-directory and `..`
		inPath := dir
		switch c.Index % 4 {
		case 1:
			inPath = dir + string(filepath.Separator)
			sigSuffix = "@path=trailing-separator"
		case 3:
			os.MkdirAll(filepath.Join(dir, "zzcwd"), 0o755)
			inPath = dir + string(filepath.Separator) + "zzcwd" + string(filepath.Separator) + ".."
			sigSuffix = "@path=sub-dotdot"
		}
		o.Count("in_process_root_spelled_"+map[int]string{0: "abs", 1: "abs-slash", 2: "abs", 3: "sub-dotdot"}[c.Index%4], 1)
		witness["analysis_path"] = inPath
		var full, filtered []bs_domain.BadSmellModel
		var groups, groupsShuffled map[string][]bs_domain.BadSmellModel
		var shuffled []bs_domain.BadSmellModel
		shufflePerm := r.Fork()
		// the ignore list as the command builds it: strings.Split(flag, ","), i.e. [""] when the flag is absent
		var ignoreArg []string
		if mask == 0 {
			switch r.Intn(3) {
			case 0:
				ignoreArg = nil
			case 1:
				ignoreArg = []string{}
			default:
				ignoreArg = []string{""}
			}
		} else {
			for _, i := range r.Perm(len(named)) {
				ignoreArg = append(ignoreArg, named[i])
			}
		}
		witness["ignore_argument"] = ignoreArg
		panicked, val, site := run.Guard(func() {
			app := bs.NewBadSmellApp()
			nodes := app.AnalysisPath(inPath)
			full = app.IdentifyBadSmell(nodes, nil)
			filtered = app.IdentifyBadSmell(nodes, ignoreArg)
			groups = bs_domain.SortSmellByType(filtered, sizedKind)
			// the same findings in an order drawn from the case's stream: the result of sorting must not rely on the
			// order in which the analysis happens to deliver them
			for _, i := range shufflePerm.Perm(len(filtered)) {
				shuffled = append(shuffled, filtered[i])
			}
			groupsShuffled = bs_domain.SortSmellByType(shuffled, sizedKind)
		})
		if panicked {
			o.Violate("panic@"+site, "bad-smell analysis panicked: %s", val)
			return
		}
		fullF, filtF := fromModels(dir, full), fromModels(dir, filtered)
		witness["observed"] = fullF
		mm, matched, skipped := oracle.SmellCompare(truth, expected, fullF, nil)
		report(mm, "IdentifyBadSmell(nil)")
		o.Count("findings_observed", len(fullF))
		o.Count("findings_matched", matched)
		o.Count("findings_of_undocumented_kinds_skipped", skipped)
		for _, f := range fullF {
			o.Count("observed_full_report/"+f.Kind, 1)
		}
		// ignore: exactly the named kinds disappear
		im := oracle.SmellCheckIgnore(fullF, filtF, named)
		report(im, "IdentifyBadSmell(ignore="+strings.Join(ignoreArg, ",")+")")
		if len(im) > 0 {
			witness["observed_with_ignore"] = filtF
		}
		o.Count("ignore_relations_checked", 1)
		removed := 0
		for _, f := range fullF {
			for _, k := range named {
				if f.Kind == k {
					removed++
				}
			}
		}
		o.Count("findings_that_had_to_disappear_by_ignore", removed)
		// sort by type
		g2 := map[string][]oracle.SmellFinding{}
		for k, v := range groups {
			g2[k] = fromModels(dir, v)
		}
		sm := append(oracle.SmellCheckGroups(g2), oracle.SmellCheckPermutation(filtF, g2)...)
		report(sm, "SortSmellByType")
		if len(sm) > 0 {
			witness["observed_sorted"] = g2
		}
		o.Count("sorted_reports_checked", 1)
		countLists(o, g2)
		g3 := map[string][]oracle.SmellFinding{}
		for k, v := range groupsShuffled {
			g3[k] = fromModels(dir, v)
		}
		shufF := fromModels(dir, shuffled)
		sm2 := append(oracle.SmellCheckGroups(g3), oracle.SmellCheckPermutation(shufF, g3)...)
		report(sm2, "SortSmellByType(findings in shuffled order)")
		if len(sm2) > 0 {
			witness["shuffled_input_of_sort"] = shufF
			witness["observed_sorted_from_shuffled"] = g3
		}
		o.Count("sorted_reports_checked(shuffled input)", 1)
		shown = fullF
	}
	if c.Index < 8*4*16 && len(p.Classes) == 1 && len(p.Classes[0].Text) < 3500 && len(expected) > 0 && len(points) > 0 && c.Index%5 == 1 {
		o.Sample = map[string]interface{}{"tag": p.Tag, "file": p.Classes[0].RelPath, "text": p.Classes[0].Text, "planted_near_threshold": points,
			"expected_full_report": expected, "reported": shown, "ignore": named, "boundary": witness["boundary"]}
	}
}
