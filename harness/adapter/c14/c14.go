// Package c14 checks coca's commit-log parsing against real git histories (property C14).
//
// Per case: a generated operation script is executed with the installed git in c.Scratch(); the ground truth is read
// back from git's -z channel (gen/gitgen/truth.go); then
//
//	cli: `coca git` is run inside the repository (this is the only boundary that contains cmd/git.go's own
//	     `git log` invocation) and coca_reporter/commits.json is read (it is written unconditionally);
//	lib: git.BuildMessageByInput is fed the text of the documented invocation
//	     git log --pretty=format:[%h] %aN %ad %s --date=short --numstat --reverse --summary
//	     (argument vector as a shell passes it, i.e. without quote characters inside the argument).
//
// Both observations are judged by the same oracle (gitgen.Compare).
package c14

import (
	"encoding/json"
	"fmt"
	"io/ioutil"
	"path/filepath"
	"strings"

	cocagit "github.com/modernizing/coca/pkg/application/git"

	"verifharness/adapter/common"
	"verifharness/gen/gitgen"
	"verifharness/run"
)

func cases(tier string) int {
	if tier == "thorough" {
		return 2400
	}
	return 120
}

var Check = &run.Check{
	ID:    "C14",
	Level: "exploration",
	Rule: "case = operation script (3-25 commits, <= 12 paths per commit: create/modify/delete/re-create, renames same-dir / into+out of a sub-directory / to+from the root / across dirs / " +
		"first or middle level replaced, optionally with a small edit; text, empty and binary files; paths with spaces, dashes and space-separated digits, nested directories; empty commits; " +
		"one or more --no-ff merges of a topic branch with work on both sides; 1-5 authors with spaces/digits/non-ASCII, one author name being a prefix of another; subjects with [hex], brackets, colons, " +
		"=>, the commit's own date, other dates, the author's name, numstat-/summary-looking words, conventional-commit prefixes, leading blanks/tab/U+3000, trailing U+00A0/U+2003 (git keeps them in %s); " +
		"every 60th repository has one commit whose first message paragraph (= %s, one log line) is 70-100 KB) executed by the installed git with fixed dates and an empty configuration; " +
		"in a third of the repositories a quarter of the commits carry an author date up to 40 days before the committer date, in another time zone (rebased / cherry-picked commits: %ad decreases along the log); " +
		"about every 12th operation is a name-tail collision: P created or deleted while Q is only modified and P ends with Q (docs/README.md + README.md, `d/e/b c.txt` + c.txt); " +
		"every 240th case instead a linear history of 1003-1600 commits written with git fast-import (tiny blobs, create/modify/delete/exact rename, empty commits); " +
		"every 3rd case, after the first report, an ancestor on the first-parent chain is checked out and `coca git` runs again in the same directory (the report must be valid JSON with exactly the shorter history); " +
		"truth = git log --reverse -z --raw --numstat --format=%x01%h%x00%P%x00%aN%x00%ad%x00%s%x00 --date=short, cross-checked against git's own textual numstat; " +
		"observed = coca_reporter/commits.json of `coca git` run in the repository AND git.BuildMessageByInput(text of the documented git log invocation); " +
		"non-trivial = >= 3 listed commits, >= 1 rename pair reported by git and >= 1 of {merge, empty commit, binary file, deletion}; distinct = hash of the per-commit multiset of (status, rename notation shape, binary) + parents + subject kinds",
	Assumptions: []string{
		"git >= 2.9 with an empty system/global configuration (rename detection on, core.quotePath default); generated paths use [A-Za-z0-9 ._-/] only, so git never C-quotes a path",
		"author names contain no date-like word (YYYY-MM-DD): the header format `[%h] %aN %ad %s` itself is ambiguous for such names",
		"subjects are non-empty (one line, or one long first paragraph that %s folds into a line); symlinks, submodules, mode-only changes and copies (-C) are not generated (not named by the quantifier)",
		"the order of changes inside a commit is free (the statement speaks of one change per path)",
		"for a rename pair the 'path' is the one numstat prints (`dir/{a => b}/f` or `old => new`): one change per pair, mode \"\"",
	},
	Cases: cases,
	Floor: func(tier string) int {
		if tier == "thorough" {
			return 150
		}
		return 8
	},
	Run:        runCase,
	MaxSamples: 3,
}

func toParsed(ms []cocagit.CommitMessage) []gitgen.Parsed {
	var out []gitgen.Parsed
	for _, m := range ms {
		p := gitgen.Parsed{Rev: m.Rev, Author: m.Author, Date: m.Date, Message: m.Message}
		for _, c := range m.Changes {
			p.Changes = append(p.Changes, gitgen.ParsedChange{Added: c.Added, Deleted: c.Deleted, File: c.File, Mode: c.Mode})
		}
		out = append(out, p)
	}
	return out
}

func runCase(c *run.Ctx, o *run.Outcome) {
	r := c.Rng
	// every 60th repository (2 in quick, 40 in thorough) carries one commit whose first message paragraph, i.e. its
	// %s subject and therefore one line of the log, is 70-100 KB long
	sc := gitgen.Generate(r.Fork(), gitgen.Opts{MinCommits: 3, MaxCommits: 25, MaxOps: 12, LongSubject: c.Index%60 == 7, OldAuthorDates: true, TailCollisions: true})
	rerunRng := r.Fork()
	repo := filepath.Join(c.Scratch(), "repo")
	witness := map[string]interface{}{"script": sc}
	o.Witness = witness
	// every 240th case (1 in quick, 10 in thorough) is a linear history of 1003-1600 commits written with git fast-import
	big := c.Index%240 == 53
	if big {
		n := r.Range(1003, 1600)
		sc = &gitgen.Script{}
		witness = map[string]interface{}{"big_history": fmt.Sprintf("gitgen.BuildBig, %d commits (content is a function of property, seed and case index)", n)}
		o.Witness = witness
		o.Count("big_histories_over_1000_commits", 1)
		if err := gitgen.BuildBig(r.Fork(), repo, n); err != nil {
			o.SetInconclusive("generator: " + head(err.Error()))
			return
		}
	} else if err := gitgen.Build(sc, repo); err != nil {
		if _, ok := err.(*gitgen.ErrConflict); ok {
			o.SetInconclusive("generator: merge conflict")
		} else {
			o.SetInconclusive("generator: " + head(err.Error()))
		}
		return
	}
	truth, err := gitgen.ReadTruth(repo)
	if err != nil {
		o.SetInconclusive("ground truth: " + head(err.Error()))
		return
	}
	witness["truth"] = clipTruth(truth)
	if big {
		witness["truth"] = "first and last 15 commits only"
		witness["truth_first"], witness["truth_last"] = truth[:15], truth[len(truth)-15:]
	}

	// coverage
	var shape []interface{}
	nExp, nRen, nSpecial := 0, 0, 0
	prevDate := ""
	for i, t := range truth {
		if gitgen.TailCollision(t) {
			o.Count("truth_commits_creating_or_deleting_a_path_that_ends_with_a_modified_path", 1)
		}
		if t.Expected() {
			if prevDate != "" && t.Date < prevDate {
				o.Count("truth_commits_with_author_date_earlier_than_predecessor", 1)
			}
			prevDate = t.Date
		}
		switch {
		case t.Parents > 1:
			o.Count("truth_merge_commits", 1)
			nSpecial++
		case len(t.Changes) == 0:
			o.Count("truth_empty_commits", 1)
			nSpecial++
		default:
			nExp++
		}
		if len(t.Subject) > 65536 {
			o.Count("truth_subjects_over_64KiB", 1)
		}
		if t.Subject != strings.TrimSpace(t.Subject) {
			o.Count("truth_subjects_with_leading_or_trailing_(unicode)_space", 1)
		}
		if hz := gitgen.Hazard(t); hz != "" {
			o.Count("hazard_"+hz, 1)
		}
		for _, ch := range t.Author {
			if ch > 127 {
				o.Count("commits_with_non_ascii_author", 1)
				break
			}
		}
		var per []string
		for _, ch := range t.Changes {
			o.Count("truth_changes", 1)
			o.Count("truth_status_"+ch.Status, 1)
			rs := gitgen.RenameShape(ch.Display)
			if ch.Old != "" {
				nRen++
				o.Count("truth_rename_"+rs, 1)
				o.Seen("rename_shapes", rs)
			}
			if ch.Binary {
				o.Count("truth_binary_changes", 1)
				nSpecial++
			}
			if ch.Status == "D" {
				nSpecial++
			}
			if strings.Contains(ch.Path, " ") {
				o.Count("truth_paths_with_space", 1)
			}
			per = append(per, ch.Status+rs+map[bool]string{true: "b", false: "t"}[ch.Binary])
		}
		sortStrings(per)
		shape = append(shape, t.Parents, strings.Join(per, ","))
		if i == 0 && len(t.Changes) == 0 {
			o.Count("first_commit_empty", 1)
		}
	}
	for _, st := range sc.Steps {
		if st.Kind == "commit" {
			shape = append(shape, st.SubjectKind)
			o.Seen("subject_kinds", st.SubjectKind)
		}
	}
	o.Count("commits_in_history", len(truth))
	o.Count("commits_expected", nExp)
	o.Shape = run.ShapeHash(shape...)
	o.NonTrivial = nExp >= 3 && nRen >= 1 && nSpecial >= 1

	// lib boundary
	text, err := gitgen.CocaLog(repo)
	if err != nil {
		o.SetInconclusive("git log: " + head(err.Error()))
		return
	}
	witness["git_log_text"] = clip(text, 20000)
	var parsed []cocagit.CommitMessage
	panicked, val, site := run.Guard(func() { parsed = cocagit.BuildMessageByInput(text) })
	if panicked {
		o.Violate("lib/panic@"+site, "BuildMessageByInput panicked: %s", val)
	} else {
		lib := toParsed(parsed)
		if !big {
			witness["lib_observed"] = clipParsed(lib)
		}
		o.Count("lib_commits_observed", len(lib))
		mm := gitgen.Compare(truth, lib)
		if len(mm) == 0 {
			o.Count("lib_histories_matched", 1)
		}
		for _, m := range mm {
			o.Violate("lib/"+m.Sig, "BuildMessageByInput: %s", m.Msg)
		}
	}

	// cli boundary
	if c.CocaBin != "" {
		o.Count("cli_cases", 1)
		res := common.RunCLI(c.CocaBin, repo, gitgen.Env(repo), "git")
		switch {
		case res.TimedOut:
			o.SetInconclusive("cli watchdog")
		case res.ExitCode != 0 || strings.Contains(res.Stderr, "panic:") || strings.Contains(res.Stderr, "fatal error"):
			o.Violate("cli/crash", "`coca git` exit %d: %s", res.ExitCode, head(res.Stderr+" "+res.Stdout))
		default:
			b, err := ioutil.ReadFile(filepath.Join(repo, "coca_reporter", "commits.json"))
			var cli []gitgen.Parsed
			if err != nil {
				o.Violate("cli/no-output", "`coca git` wrote no coca_reporter/commits.json")
			} else if err := json.Unmarshal(b, &cli); err != nil {
				o.Violate("cli/output-unreadable", "commits.json is not a JSON list of commits: %v", err)
			} else {
				if !big {
					witness["cli_observed"] = clipParsed(cli)
				} else if len(cli) > 30 {
					witness["cli_observed_first"], witness["cli_observed_last"] = cli[:15], cli[len(cli)-15:]
				}
				o.Count("cli_commits_observed", len(cli))
				mm := gitgen.Compare(truth, cli)
				if len(mm) == 0 {
					o.Count("cli_histories_matched", 1)
				}
				for _, m := range mm {
					o.Violate("cli/"+m.Sig, "`coca git` commits.json: %s", m.Msg)
				}
			}
		}
	}
	if c.CocaBin != "" && !big && c.Index%3 == 1 && o.Status != "inconclusive" {
		rerunOnShorterHistory(c, o, repo, rerunRng, witness)
	}
	if c.Index < 64 && !big {
		o.Sample = map[string]interface{}{"script_steps": len(sc.Steps), "truth": clipTruth(truth), "git_log_text": clip(text, 3000)}
	}
}

// rerunOnShorterHistory: `coca git` has just written its report for HEAD; an ancestor on the first-parent chain is
// checked out (a strictly shorter history) and `coca git` runs a second time IN THE SAME DIRECTORY. The report file
// must then be valid JSON holding exactly the commits of the history now checked out - nothing of the earlier report.
func rerunOnShorterHistory(c *run.Ctx, o *run.Outcome, repo string, r *run.Rand, witness map[string]interface{}) {
	out, err := gitgen.Git(repo, nil, "rev-list", "--first-parent", "HEAD")
	if err != nil {
		return
	}
	revs := strings.Fields(out)
	if len(revs) < 2 {
		return
	}
	target := revs[1+r.Intn(len(revs)-1)]
	report := filepath.Join(repo, "coca_reporter", "commits.json")
	before, _ := ioutil.ReadFile(report)
	if _, err := gitgen.Git(repo, nil, "checkout", "-q", "--detach", target); err != nil {
		o.SetInconclusive("generator: checkout of an ancestor failed: " + head(err.Error()))
		return
	}
	truth, err := gitgen.ReadTruth(repo)
	if err != nil {
		o.SetInconclusive("ground truth (second history): " + head(err.Error()))
		return
	}
	o.Count("cli_rerun_cases", 1)
	witness["rerun_checked_out"] = target
	witness["rerun_truth"] = clipTruth(truth)
	res := common.RunCLI(c.CocaBin, repo, gitgen.Env(repo), "git")
	if res.TimedOut {
		o.SetInconclusive("cli watchdog")
		return
	}
	if res.ExitCode != 0 || strings.Contains(res.Stderr, "panic:") || strings.Contains(res.Stderr, "fatal error") {
		o.Violate("cli-rerun/crash", "second `coca git` in the same directory: exit %d: %s", res.ExitCode, head(res.Stderr+" "+res.Stdout))
		return
	}
	b, err := ioutil.ReadFile(report)
	if err != nil {
		o.Violate("cli-rerun/no-output", "second `coca git` left no coca_reporter/commits.json")
		return
	}
	if len(b) < len(before) {
		o.Count("cli_rerun_second_report_shorter", 1)
	}
	var cli []gitgen.Parsed
	if err := json.Unmarshal(b, &cli); err != nil {
		tail := string(b)
		if len(tail) > 160 {
			tail = "…" + tail[len(tail)-160:]
		}
		o.Violate("cli-rerun/output-unreadable", "after a second `coca git` run in the same directory (first report %d bytes, now %d bytes, history of %d commits checked out) commits.json is not a JSON list: %v; file ends with %q", len(before), len(b), len(truth), err, tail)
		return
	}
	witness["rerun_cli_observed"] = clipParsed(cli)
	mm := gitgen.Compare(truth, cli)
	if len(mm) == 0 {
		o.Count("cli_rerun_histories_matched", 1)
	}
	for _, m := range mm {
		o.Violate("cli-rerun/"+m.Sig, "second `coca git` run in the same directory, commits.json: %s", m.Msg)
	}
}

// clipTruth / clipParsed shorten the 70-100 KB subjects for witness and sample (the comparison uses the full text).
func clipTruth(ts []gitgen.TruthCommit) []gitgen.TruthCommit {
	out := append([]gitgen.TruthCommit(nil), ts...)
	for i := range out {
		if n := len(out[i].Subject); n > 2000 {
			out[i].Subject = fmt.Sprintf("%s…(%d bytes)", out[i].Subject[:300], n)
		}
	}
	return out
}

func clipParsed(ps []gitgen.Parsed) []gitgen.Parsed {
	out := append([]gitgen.Parsed(nil), ps...)
	for i := range out {
		if n := len(out[i].Message); n > 2000 {
			out[i].Message = fmt.Sprintf("%s…(%d bytes)", out[i].Message[:300], n)
		}
	}
	return out
}

func sortStrings(s []string) {
	for i := 1; i < len(s); i++ {
		for j := i; j > 0 && s[j] < s[j-1]; j-- {
			s[j], s[j-1] = s[j-1], s[j]
		}
	}
}

func clip(s string, n int) string {
	if len(s) > n {
		return s[:n] + "…"
	}
	return s
}

func head(s string) string {
	s = strings.TrimSpace(s)
	if len(s) > 300 {
		s = s[:300]
	}
	return strings.ReplaceAll(s, "\n", " / ")
}
