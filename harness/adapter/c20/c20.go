// Package c20 drives coca's Go and Python front-ends on generated files with planted declarations and checks
// that every planted declaration is listed exactly once, under its own name and its own owner.
package c20

import (
	"encoding/json"
	"fmt"
	goparser "go/parser"
	"go/token"
	"io/ioutil"
	"os"
	"path/filepath"
	"strings"

	"github.com/antlr/antlr4/runtime/Go/antlr/v4"
	pyparser "github.com/modernizing/coca/languages/python"
	"github.com/modernizing/coca/pkg/application/analysis"
	"github.com/modernizing/coca/pkg/application/analysis/goapp"
	"github.com/modernizing/coca/pkg/application/analysis/pyapp"
	"github.com/modernizing/coca/pkg/domain/core_domain"
	"github.com/modernizing/coca/pkg/infrastructure/ast/ast_go"

	"verifharness/adapter/common"
	"verifharness/gen/gopygen"
	"verifharness/oracle"
	"verifharness/run"
)

func cases(tier string) int {
	if tier == "thorough" {
		return 48000 // (was 16000) 8000 Python modules + 8000 Go files (primary files; sibling files come on top)
	}
	return 2400 // 1200 + 1200
}

// every Nth case of each language also goes through the real main (coca-python / coca-golang)
func cliEvery(tier string) int {
	if tier == "thorough" {
		return 24 // 1000 + 1000 CLI cases (plus the large Python modules)
	}
	return 8 // 150 + 150 CLI cases (plus the large Python modules)
}

var Check = &run.Check{
	ID:    "C20",
	Level: "exploration",
	Rule: "case = one generated file (+1-2 sibling files in 1/3 of the cases; ids make every planted name unique within the case, except that in 2/3 of the multi-file cases the files sit in different sub-directories " +
		"and the second file declares one struct/interface/exported function resp. class/capitalised function under a name the first file declares too, with members of its own - Go: same package clause, e.g. two `package main`, in 2/3 of these; " +
		"the flattened model then has to list such a name as often as it is declared, each entry with its own members); " +
		"even index: Python module (imports `import a`, `import a.b.c`, `import a.b as c`, `import a, b`, `from a import b, c`, `from a import b as c`, `from a import (b, c,)` on one or several lines, `from . import x`, `from ..p import x`, `from a import *`; " +
		"0-2 decorated classes with 0-3 decorated methods, decorated/async functions, nested defs up to depth 2, parameter lists incl. defaults, annotations, bare `*`, and lists made only of `*args` / `**kwargs` (functions, methods, nested defs), class attributes, docstrings and strings that look like declarations, comments, multi-line bracketed statements, indent 2/4/tab, CRLF (1 in 8), no final newline, a last line of bare indentation without newline (1 in 16), empty and blank-only lines inside indented blocks (1 in 3), one physical line of 64-73 KiB - string literal or comment - before further declarations (1 in 30)). " +
		"Modules stay within 30 lexer events (logical lines + INDENT + DEDENT); 1 module in 40 is 'large' (median 69, up to ~300 events; either structured or 33-70 one-line declarations) and is parsed only in fresh child processes. " +
		"Every module first has to pass coca's own Python parser (languages/python + counting error listener); a reject is inconclusive. " +
		"odd index: Go file accepted by go/parser (0-5 imports in 3 layouts, aliases, `_`; 1-6 structs with 0-5 field lines incl. `a, b T`, tags, embedded fields, pointer/slice/map/func/chan/qualified types; 0-3 interfaces incl. empty and embedding ones; single or grouped type declarations; " +
		"import paths as interpreted or raw string literals; blank-identifier parameters and fields; methods on value/pointer/unnamed receivers placed below or above their type; 0-4 free functions incl. `a, b T` and variadic parameters, named results, declarations without a body; bodies of package-qualified and receiver/parameter call statements (one in five with a function literal as last argument that holds further call statements, nested up to depth 2), unqualified calls, defer, := and = assignments, returns; " +
		"one type expression in 14 (parameters, struct fields) is an interface type written in place with 1-2 methods; one file in 12 contains, below the package clause, a line reading `// Code generated ... DO NOT EDIT.` - in a comment quoting the header or on its own line inside a raw string passed to a call statement). " +
		"Observed: pyapp.PythonIdentApp.Analysis, goapp.GoIdentApp.Analysis or ast_go.CocagoParser.ProcessString per file; analysis.CommonAnalysis on the directory; for every 4th (quick) / 8th (thorough) case of each language the real mains `coca-python analysis -p` / `coca-golang analysis -p` (coca_reporter/pydeps.json, godeps.json). " +
		"non-trivial = Python: a class with a method + a decorator + an import; Go: >= 2 type declarations + a method + an asserted call statement; distinct = hash of the structural shape of the primary file (kinds, counts, order, layout; no names) and the number of files",
	Assumptions: []string{
		"every planted name is unique within a file (ids), so one observation matches at most one planted event; a type/function name deliberately declared in two files of a case is demanded with multiset semantics in the flattened model (CommonAnalysis, *deps.json): as many entries as declarations, entries matched to declarations by their (unique) members",
		"methods have their receiver type declared in the same file, below or (interleaved layout, one method in four placed anywhere) above the method; a method is demanded under its own struct exactly once either way",
		"a parameter or field named with the blank identifier is a parameter / field: it is demanded as an entry named _, and a parameter list is demanded with its written arity (functions, methods, interface methods); unnamed parameters are not generated",
		"an import path written as a raw string literal is demanded under the path without any quote character",
		"a function declaration without a body is demanded as a function with its parameters",
		"a call statement written inside a function literal that is an argument of a call statement is a call statement of the enclosing function: demanded exactly once there; an interface type written in place (parameter / field type) is not a declaration: nothing is demanded for it, the declared types around it keep their entries",
		"a Python module that coca's parser rejects although the same declarations in plain layout (LF, 4 blanks, no blank lines inside blocks) are accepted is judged, not skipped: only its layout differs; mismatches of cases with a CRLF module carry the suffix @case-with-CRLF-module (the two pinned import forms are not written into CRLF modules)",
		"nested defs may additionally be listed anywhere; unplanted names are not counted against the model",
		"only calls written as a statement with a package qualifier or a receiver/parameter variable are asserted; deferred, unqualified, right-hand-side and returned calls are generated but free",
		"an import's own name is its path (Go: as written or with '/' replaced by '.', the front-end's convention) resp. its dotted module name (Python); aliases are not asserted except that a from-imported name must be listed as the name, the alias or `name as alias`",
		"flattened model (CommonAnalysis, *deps.json): functions are asserted only when their name starts with an upper-case letter (the flattening keeps those by construction); parameters/imports have no place there",
		"a Python module that coca's own parser rejects (syntax errors > 0) gives no verdict (DESIGN §2), even though the generator only writes valid Python (checked against CPython's ast.parse while building the generator); rejected modules are counted (py_modules_rejected_by_coca_parser)",
		"coca's Python lexer helper keeps its token queue in package-level variables: modules that can make the queue grow (> 31 lexer events) are parsed in fresh child processes only (acceptance filter and Analysis in separate children, like the real coca-python process), so that a case never depends on what the worker parsed before; mismatches of such cases carry the suffix @case-with-module-over-31-lexer-events",
	},
	Cases: cases,
	Floor: func(tier string) int {
		if tier == "thorough" {
			return 2000
		}
		return 150
	},
	Run:        runCase,
	MaxSamples: 4,
}

// ---- parser-acceptance filter (DESIGN §2) -----------------------------------------------------------------------

type countingListener struct {
	*antlr.DefaultErrorListener
	n     int
	first string
}

func (l *countingListener) SyntaxError(recognizer antlr.Recognizer, offendingSymbol interface{}, line, column int, msg string, e antlr.RecognitionException) {
	if l.n == 0 {
		if len(msg) > 80 {
			msg = msg[:80]
		}
		l.first = fmt.Sprintf("%d:%d %s", line, column, msg)
	}
	l.n++
}

// pyAccepts parses the text once with coca's own generated Python parser.
func pyAccepts(text string) (ok bool, errors int, first string) {
	el := &countingListener{DefaultErrorListener: antlr.NewDefaultErrorListener()}
	panicked, val, _ := run.Guard(func() {
		lexer := pyparser.NewPythonLexer(antlr.NewInputStream(text))
		lexer.RemoveErrorListeners()
		lexer.AddErrorListener(el)
		tokens := antlr.NewCommonTokenStream(lexer, antlr.TokenDefaultChannel)
		p := pyparser.NewPythonParser(tokens)
		p.RemoveErrorListeners()
		p.AddErrorListener(el)
		p.Root()
	})
	if panicked {
		return false, 1, "parser panicked: " + val
	}
	return el.n == 0, el.n, el.first
}

// ---- fresh-process modes ------------------------------------------------------------------------------------------
//
// coca's Python lexer helper keeps its token queue in package-level variables. A module with more than 31 lexer
// events makes that queue grow; the shipped growth code loses the queued tokens and leaves stale ones behind for the
// next parse in the same process. To keep a case a pure function of (seed, index) - and replayable - every module
// that may exceed the queue (the 'large' class) is parsed only in fresh child processes: one for the acceptance
// filter, one for PythonIdentApp.Analysis, so that both see exactly the state the real `coca-python` process has.
// Modules of the small class never make the queue grow, so in-process parses of them start from a drained queue.

type freshResult struct {
	Errors    int                 `json:"errors"`
	First     string              `json:"first,omitempty"`
	Panic     string              `json:"panic,omitempty"`
	Site      string              `json:"site,omitempty"`
	Container *oracle.GPContainer `json:"container,omitempty"`
}

// FreshMain handles the hidden child modes of the c20 binary; it returns false when args are not a child mode.
//
//	c20 --c20-py-accept  FILE OUT
//	c20 --c20-py-analyse FILE NAME OUT
func FreshMain(args []string) bool {
	if len(args) < 1 || !strings.HasPrefix(args[0], "--c20-py-") {
		return false
	}
	var res freshResult
	out := args[len(args)-1]
	b, err := ioutil.ReadFile(args[1])
	if err != nil {
		res.Panic = err.Error()
	} else if args[0] == "--c20-py-accept" {
		_, res.Errors, res.First = pyAccepts(string(b))
	} else {
		var c core_domain.CodeContainer
		panicked, val, site := run.Guard(func() { c = new(pyapp.PythonIdentApp).Analysis(string(b), args[2]) })
		if panicked {
			res.Panic, res.Site = val, site
		} else if got, err := toContainer(c); err == nil {
			res.Container = got
		} else {
			res.Panic = err.Error()
		}
	}
	j, _ := json.Marshal(res)
	ioutil.WriteFile(out, j, 0o644)
	return true
}

func freshPy(c *run.Ctx, mode string, m *gopygen.PyModule) (*freshResult, error) {
	return freshPyText(c, mode, m.File, m.Text)
}

func freshPyText(c *run.Ctx, mode string, file, text string) (*freshResult, error) {
	dir := filepath.Join(c.Scratch(), "fresh")
	os.MkdirAll(dir, 0o755)
	src := filepath.Join(dir, "module.py")
	out := filepath.Join(dir, mode+".json")
	if err := ioutil.WriteFile(src, []byte(text), 0o644); err != nil {
		return nil, err
	}
	os.Remove(out)
	args := []string{"--c20-py-" + mode, src}
	if mode == "analyse" {
		args = append(args, file)
	}
	args = append(args, out)
	res := common.RunCLI(os.Args[0], dir, nil, args...)
	b, err := ioutil.ReadFile(out)
	if err != nil {
		return nil, fmt.Errorf("child %s: exit %d, no result: %s", mode, res.ExitCode, firstLine(res.Stderr))
	}
	var fr freshResult
	if err := json.Unmarshal(b, &fr); err != nil {
		return nil, err
	}
	return &fr, nil
}

// acceptsPy runs the parser-acceptance filter on a text of module m (large modules: in a fresh child process).
func acceptsPy(c *run.Ctx, m *gopygen.PyModule, text string) (ok bool, nerr int, first string, err error) {
	if m.Large {
		fr, ferr := freshPyText(c, "accept", m.File, text)
		if ferr != nil {
			return false, 0, "", ferr
		}
		return fr.Errors == 0 && fr.Panic == "", fr.Errors, fr.First + fr.Panic, nil
	}
	ok, nerr, first = pyAccepts(text)
	return ok, nerr, first, nil
}

func goAccepts(name, text string) error {
	_, err := goparser.ParseFile(token.NewFileSet(), name, text, 0)
	return err
}

// ---- helpers ----------------------------------------------------------------------------------------------------

func toContainer(v core_domain.CodeContainer) (*oracle.GPContainer, error) {
	b, err := json.Marshal(v)
	if err != nil {
		return nil, err
	}
	var out oracle.GPContainer
	if err := json.Unmarshal(b, &out); err != nil {
		return nil, err
	}
	return &out, nil
}

func toFlat(v []core_domain.CodeDataStruct) ([]oracle.GPDataStruct, error) {
	b, err := json.Marshal(v)
	if err != nil {
		return nil, err
	}
	var out []oracle.GPDataStruct
	if err := json.Unmarshal(b, &out); err != nil {
		return nil, err
	}
	return out, nil
}

func addStats(o *run.Outcome, prefix string, st *oracle.GPStats) {
	for k, v := range st.Planted {
		o.Count(prefix+"planted_"+k, v)
		o.Count("events_planted", v)
	}
	for k, v := range st.Matched {
		o.Count(prefix+"matched_"+k, v)
		o.Count("events_matched", v)
	}
	for k, v := range st.Info {
		o.Count(prefix+"info_"+k, v)
	}
}

func report(o *run.Outcome, ms []oracle.GPMismatch) {
	for _, m := range ms {
		o.Violate(m.Sig, "%s", m.Msg)
	}
}

func firstLine(s string) string {
	s = strings.TrimSpace(s)
	if i := strings.Index(s, "\n"); i > 0 {
		s = s[:i]
	}
	if len(s) > 300 {
		s = s[:300]
	}
	return s
}

// inDir runs f with the process working directory set to dir (CommonAnalysis writes coca_reporter/members.json
// relative to the working directory). Workers run one case at a time, so this is safe.
func inDir(dir string, f func()) {
	old, err := os.Getwd()
	if err != nil {
		old = "/"
	}
	if err := os.Chdir(dir); err != nil {
		panic(err)
	}
	defer os.Chdir(old)
	f()
}

var subDirs = []string{"", "", "app", "pkg/core", "internal/svc/store"}

// directories of the files of a case in which two files declare the same name
var shareDirs = []string{"cmd/server", "cmd/worker", "tools/gen"}

type fileText struct {
	Name string `json:"name"`
	Text string `json:"text"`
}

func writeFiles(root string, files []fileText) error {
	for _, f := range files {
		p := filepath.Join(root, f.Name)
		if err := os.MkdirAll(filepath.Dir(p), 0o755); err != nil {
			return err
		}
		if err := ioutil.WriteFile(p, []byte(f.Text), 0o644); err != nil {
			return err
		}
	}
	return nil
}

func runCase(c *run.Ctx, o *run.Outcome) {
	lang := c.Index % 2
	useCLI := (c.Index/2)%cliEvery(c.Tier) == 0
	if lang == 0 {
		pyCase(c, o, useCLI)
	} else {
		goCase(c, o, useCLI)
	}
}

// ---- Python -----------------------------------------------------------------------------------------------------

func pyCase(c *run.Ctx, o *run.Outcome, useCLI bool) {
	r := c.Rng
	large := r.Chance(1, 40)
	nFiles := 1
	if r.Chance(1, 3) {
		nFiles = r.Range(2, 3)
	}
	// same-name dimension: in 2/3 of the multi-file cases the files live in different sub-directories and the second
	// one declares a class / capitalised function under a name the first one declares too
	share := nFiles >= 2 && r.Chance(2, 3)
	sub := r.Pick(subDirs)
	var mods []*gopygen.PyModule
	for i := 0; i < nFiles; i++ {
		dir := sub
		if share {
			dir = shareDirs[i]
		}
		name := filepath.Join(dir, fmt.Sprintf("%s_%d.py", r.Pick([]string{"views", "models", "service", "util", "handlers"}), i))
		mods = append(mods, gopygen.GenPy(r.Fork(), name, large && i == 0, i*1000))
	}
	// ids are offset per file (i*1000), so names cannot clash between the files of a case; kept as a guard
	mods = dropClashingPy(mods)
	var sharedNames []string
	if share && len(mods) >= 2 {
		sharedNames = gopygen.SharePyNames(r.Fork(), mods[0], mods[1])
	}
	o.Count("py_cases", 1)
	if large {
		o.Count("py_large_modules_generated", 1)
	}

	witness := map[string]interface{}{"lang": "python", "names_declared_in_two_files": sharedNames}
	o.Witness = witness
	var files []fileText
	var accepted []*gopygen.PyModule
	for i, m := range mods {
		ok, nerr, first, err := acceptsPy(c, m, m.Text)
		if err != nil {
			o.SetInconclusive("fresh-process acceptance filter failed: " + err.Error())
			return
		}
		if !ok {
			o.Count("py_modules_rejected_by_coca_parser", 1)
			if m.LexEvents > gopygen.PySmallBudget+1 {
				o.Count("py_rejected_with_more_than_31_lexer_events", 1)
			}
			// Is it the declarations coca's grammar cannot read, or only the way they are laid out? The same module
			// in the plainest layout (LF, 4 blanks, final newline, no blank lines inside blocks) decides: when that
			// text is accepted, line ends / blank lines / indentation are what the parser stumbles over, the module
			// is inside the quantifier ("any Python module built from ...") and its model is judged like any other.
			layoutOnly := false
			if canon := m.CanonicalText(); canon != m.Text {
				if cok, _, _, cerr := acceptsPy(c, m, canon); cerr == nil && cok {
					layoutOnly = true
				}
			}
			if layoutOnly {
				o.Count("py_modules_rejected_only_for_their_layout_and_judged", 1)
				witness["parser_errors_"+m.File] = fmt.Sprintf("%d syntax error(s), first: %s (the same declarations in plain LF layout are accepted)", nerr, first)
			} else {
				if i == 0 {
					witness["files"] = []fileText{{m.File, m.Text}}
					size := "small"
					if m.Large {
						size = "large"
					}
					o.SetInconclusive(fmt.Sprintf("generator reject: coca's Python parser reports syntax errors on a valid %s module", size))
					o.Sample = map[string]interface{}{"rejected_module": truncate(m.Text, 6000), "lexer_events": m.LexEvents, "errors": nerr, "first_error": first}
					return
				}
				continue
			}
		}
		accepted = append(accepted, m)
		files = append(files, fileText{m.File, m.Text})
	}
	witness["files"] = files
	prim := accepted[0]
	if prim.LexEvents > gopygen.PySmallBudget+1 {
		o.Count("py_accepted_with_more_than_31_lexer_events", 1)
	}
	o.Shape = run.ShapeHash("py", prim.Shape(), len(accepted), len(sharedNames))
	if len(sharedNames) > 0 && len(accepted) == len(mods) {
		o.Count("dim_py_cases_with_same_name_in_two_files", 1)
		o.Count("dim_py_names_declared_in_two_files", len(sharedNames))
	}
	o.NonTrivial = pyNonTrivial(prim)
	o.Count("py_modules", len(accepted))
	o.Count("py_lexer_events", prim.LexEvents)
	pyDimensions(o, prim)

	// 1. per-file model
	observed := map[string]interface{}{}
	witness["observed"] = observed
	for _, m := range accepted {
		var got *oracle.GPContainer
		if m.Large {
			fr, err := freshPy(c, "analyse", m)
			if err != nil {
				o.Violate("process-death@PythonIdentApp.Analysis", "PythonIdentApp.Analysis in a fresh process on %s: %v", m.File, err)
				continue
			}
			if fr.Panic != "" {
				o.Violate("panic@"+fr.Site, "PythonIdentApp.Analysis panicked on %s: %s", m.File, fr.Panic)
				continue
			}
			got = fr.Container
			o.Count("py_large_modules_checked", 1)
		} else {
			var res core_domain.CodeContainer
			panicked, val, site := run.Guard(func() { res = new(pyapp.PythonIdentApp).Analysis(m.Text, m.File) })
			if panicked {
				o.Violate("panic@"+site, "PythonIdentApp.Analysis panicked on %s: %s", m.File, val)
				continue
			}
			var err error
			if got, err = toContainer(res); err != nil {
				o.Violate("py/result-not-serialisable", "%v", err)
				continue
			}
		}
		observed[m.File] = got
		ms, st := oracle.CheckPyContainer(m, got)
		addStats(o, "", st)
		report(o, ms)
	}

	// 2. flattened model: CommonAnalysis in-process, or the real main
	dir := c.Scratch()
	if err := writeFiles(filepath.Join(dir, "proj"), files); err != nil {
		o.SetInconclusive("cannot write scratch files: " + err.Error())
		return
	}
	var flat []oracle.GPDataStruct
	where := "flat/"
	if useCLI || large {
		// (large modules never enter this process' lexer: see the note on fresh-process modes)
		where = "cli/"
		o.Count("cli_cases", 1)
		res := common.RunCLI(filepath.Join(c.BinDir, "coca-python"), dir, nil, "analysis", "-p", "proj")
		if res.TimedOut {
			o.SetInconclusive("cli watchdog")
			return
		}
		if res.ExitCode != 0 || strings.Contains(res.Stderr, "panic:") || strings.Contains(res.Stderr, "goroutine ") {
			o.Violate("cli/crash", "`coca-python analysis` exit %d: %s", res.ExitCode, firstLine(res.Stderr))
			return
		}
		b, err := ioutil.ReadFile(filepath.Join(dir, "coca_reporter", "pydeps.json"))
		if err != nil {
			o.Violate("cli/no-output", "`coca-python analysis` wrote no pydeps.json: %v", err)
			return
		}
		witness["pydeps.json"] = truncate(string(b), 6000)
		if err := json.Unmarshal(b, &flat); err != nil {
			o.Violate("cli/output-not-json", "pydeps.json does not parse: %v", err)
			return
		}
	} else {
		var ds []core_domain.CodeDataStruct
		var panicked bool
		var val, site string
		inDir(dir, func() {
			panicked, val, site = run.Guard(func() {
				ds = analysis.CommonAnalysis(ioutil.Discard, "proj", new(pyapp.PythonIdentApp), func(p string) bool { return strings.HasSuffix(p, ".py") }, true)
			})
		})
		if panicked {
			o.Violate("panic@"+site, "CommonAnalysis(PythonIdentApp) panicked: %s", val)
			return
		}
		var err error
		if flat, err = toFlat(ds); err != nil {
			o.Violate("py/result-not-serialisable", "%v", err)
			return
		}
		witness["flat"] = flat
	}
	ms, st := oracle.CheckPyFlat(where, accepted, flat)
	addStats(o, where, st)
	report(o, ms)
	o.Count("events_observed", len(flat))

	if c.Index < 64 {
		o.Sample = map[string]interface{}{"file": prim.File, "text": truncate(prim.Text, 6000), "lexer_events": prim.LexEvents, "files_in_case": len(accepted),
			"observed_per_file_model": observed[prim.File], "flat_entries": len(flat), "via": where}
	}
}

func truncate(s string, n int) string {
	if len(s) > n {
		return s[:n] + "…"
	}
	return s
}

func dropClashingPy(mods []*gopygen.PyModule) []*gopygen.PyModule {
	seen := map[string]bool{}
	var out []*gopygen.PyModule
	for _, m := range mods {
		names := pyNames(m)
		clash := false
		for _, n := range names {
			if seen[n] {
				clash = true
			}
		}
		if clash && len(out) > 0 {
			continue
		}
		for _, n := range names {
			seen[n] = true
		}
		out = append(out, m)
	}
	return out
}

func pyNames(m *gopygen.PyModule) []string {
	var out []string
	for _, cl := range m.Classes() {
		out = append(out, cl.Name)
		for _, me := range cl.Methods() {
			out = append(out, me.Name)
			out = append(out, me.NestedNames()...)
		}
	}
	for _, f := range m.Funcs() {
		out = append(out, f.Name)
		out = append(out, f.NestedNames()...)
	}
	return out
}

func pyNonTrivial(m *gopygen.PyModule) bool {
	hasMethod, hasDeco := false, false
	for _, cl := range m.Classes() {
		if len(cl.Methods()) > 0 {
			hasMethod = true
		}
		if len(cl.Decos) > 0 {
			hasDeco = true
		}
		for _, me := range cl.Methods() {
			if len(me.Decos) > 0 {
				hasDeco = true
			}
		}
	}
	for _, f := range m.Funcs() {
		if len(f.Decos) > 0 {
			hasDeco = true
		}
	}
	return hasMethod && hasDeco && len(m.Imports()) > 0
}

func pyDimensions(o *run.Outcome, m *gopygen.PyModule) {
	for _, im := range m.Imports() {
		switch {
		case !im.From && len(im.Mods) > 1:
			o.Count("dim_py_import_several_modules", 1)
		case !im.From && im.Mods[0].Alias != "":
			o.Count("dim_py_import_as", 1)
		case !im.From:
			o.Count("dim_py_import_plain", 1)
		case im.Star:
			o.Count("dim_py_from_import_star", 1)
		case strings.HasPrefix(im.Source, "."):
			o.Count("dim_py_from_relative", 1)
		default:
			o.Count("dim_py_from_import", 1)
		}
		for _, n := range im.Names {
			if n.Alias != "" {
				o.Count("dim_py_from_import_name_as", 1)
			}
		}
	}
	for _, cl := range m.Classes() {
		if len(cl.Decos) > 0 {
			o.Count("dim_py_decorated_class", 1)
		}
		for _, me := range cl.Methods() {
			if len(me.Decos) > 0 {
				o.Count("dim_py_decorated_method", 1)
			}
			if len(me.NestedNames()) > 0 {
				o.Count("dim_py_nested_def_in_method", 1)
			}
			if me.Async {
				o.Count("dim_py_async_def", 1)
			}
		}
	}
	for _, f := range m.Funcs() {
		if len(f.Decos) > 0 {
			o.Count("dim_py_decorated_function", 1)
		}
		if len(f.NestedNames()) > 0 {
			o.Count("dim_py_nested_def_in_function", 1)
		}
		if f.Async {
			o.Count("dim_py_async_def", 1)
		}
	}
	if m.CRLF {
		o.Count("dim_py_crlf", 1)
	}
	if m.BlankInBlocks {
		o.Count("dim_py_blank_lines_inside_blocks", 1)
	}
	if m.LongLine {
		o.Count("dim_py_module_with_line_of_64KiB_or_more", 1)
	}
	top, meth, nested := m.StarOnlyDefs()
	o.Count("dim_py_function_with_only_star_parameters", top)
	o.Count("dim_py_method_with_only_star_parameters", meth)
	o.Count("dim_py_nested_def_with_only_star_parameters", nested)
	if m.TrailIndent != "" {
		o.Count("dim_py_last_line_bare_indentation_without_newline", 1)
		if len(m.Items) == 1 {
			o.Count("dim_py_single_declaration_module_ending_in_bare_indentation", 1)
		}
	}
	if m.CRLF && (m.BlankInBlocks || strings.Contains(m.Text, "\r\n\r\n"+m.Indent)) {
		o.Count("dim_py_crlf_with_blank_line_inside_a_block", 1)
	}
	if m.Indent == "\t" {
		o.Count("dim_py_tab_indent", 1)
	}
	o.Seen("py_indent", fmt.Sprintf("%q", m.Indent))
}

// ---- Go ---------------------------------------------------------------------------------------------------------

func goNames(f *gopygen.GoFile) []string {
	var out []string
	for _, s := range f.Structs() {
		out = append(out, s.Name)
	}
	for _, i := range f.Ifaces() {
		out = append(out, i.Name)
	}
	for _, fn := range f.Funcs() {
		out = append(out, fn.Name)
	}
	for _, fn := range f.Methods() {
		out = append(out, fn.Name)
	}
	return out
}

func goCase(c *run.Ctx, o *run.Outcome, useCLI bool) {
	r := c.Rng
	nFiles := 1
	if r.Chance(1, 3) {
		nFiles = r.Range(2, 3)
	}
	// same-name dimension: in 2/3 of the multi-file cases the files live in different sub-directories and the second
	// one declares a struct / interface / exported function under a name the first one declares too (with its own
	// members); both files carry the same package clause (e.g. two `package main` commands) in 2/3 of these
	share := nFiles >= 2 && r.Chance(2, 3)
	samePkg := r.Chance(2, 3)
	sub := r.Pick(subDirs)
	var gofiles []*gopygen.GoFile
	seen := map[string]bool{}
	for i := 0; i < nFiles; i++ {
		dir := sub
		if share {
			dir = shareDirs[i]
		}
		name := filepath.Join(dir, fmt.Sprintf("%s_%d.go", r.Pick([]string{"order", "store", "handler", "model", "svc"}), i))
		f := gopygen.GenGo(r.Fork(), name, i*1000)
		clash := false
		for _, n := range goNames(f) {
			if seen[n] {
				clash = true
			}
		}
		if clash && i > 0 {
			continue
		}
		for _, n := range goNames(f) {
			seen[n] = true
		}
		gofiles = append(gofiles, f)
	}
	var sharedNames []string
	if share && len(gofiles) >= 2 {
		sharedNames = gopygen.ShareGoNames(r.Fork(), gofiles[0], gofiles[1], samePkg)
	}
	o.Count("go_cases", 1)
	witness := map[string]interface{}{"lang": "go", "names_declared_in_two_files": sharedNames}
	o.Witness = witness
	var files []fileText
	for _, f := range gofiles {
		if err := goAccepts(f.File, f.Text); err != nil {
			witness["files"] = []fileText{{f.File, f.Text}}
			o.SetInconclusive("generator reject: go/parser does not accept the generated file")
			o.Sample = map[string]interface{}{"rejected_file": f.Text, "error": err.Error()}
			return
		}
		files = append(files, fileText{f.File, f.Text})
	}
	witness["files"] = files
	prim := gofiles[0]
	o.Shape = run.ShapeHash("go", prim.Shape(), len(gofiles), len(sharedNames))
	if len(sharedNames) > 0 {
		o.Count("dim_go_cases_with_same_name_in_two_files", 1)
		o.Count("dim_go_names_declared_in_two_files", len(sharedNames))
		if gofiles[0].Pkg == gofiles[1].Pkg {
			o.Count("dim_go_same_name_and_same_package_clause", 1)
		}
	}
	o.NonTrivial = goNonTrivial(prim)
	o.Count("go_files", len(gofiles))
	goDimensions(o, prim)

	// 1. per-file model
	observed := map[string]interface{}{}
	witness["observed"] = observed
	viaProcessString := r.Bool()
	for _, f := range gofiles {
		var res core_domain.CodeContainer
		entry := "GoIdentApp.Analysis"
		panicked, val, site := run.Guard(func() {
			if viaProcessString {
				entry = "CocagoParser.ProcessString"
				res = *ast_go.NewCocagoParser().ProcessString(f.Text, f.File, nil)
			} else {
				res = new(goapp.GoIdentApp).Analysis(f.Text, f.File)
			}
		})
		o.Count("entry_"+entry, 1)
		if panicked {
			o.Violate("panic@"+site, "%s panicked on %s: %s", entry, f.File, val)
			continue
		}
		got, err := toContainer(res)
		if err != nil {
			o.Violate("go/result-not-serialisable", "%v", err)
			continue
		}
		observed[f.File] = got
		ms, st := oracle.CheckGoContainer(f, got)
		addStats(o, "", st)
		report(o, ms)
	}

	// 2. flattened model
	dir := c.Scratch()
	if err := writeFiles(filepath.Join(dir, "proj"), files); err != nil {
		o.SetInconclusive("cannot write scratch files: " + err.Error())
		return
	}
	var flat []oracle.GPDataStruct
	where := "flat/"
	if useCLI {
		where = "cli/"
		o.Count("cli_cases", 1)
		res := common.RunCLI(filepath.Join(c.BinDir, "coca-golang"), dir, nil, "analysis", "-p", "proj")
		if res.TimedOut {
			o.SetInconclusive("cli watchdog")
			return
		}
		if res.ExitCode != 0 || strings.Contains(res.Stderr, "panic:") || strings.Contains(res.Stderr, "goroutine ") {
			o.Violate("cli/crash", "`coca-golang analysis` exit %d: %s", res.ExitCode, firstLine(res.Stderr))
			return
		}
		b, err := ioutil.ReadFile(filepath.Join(dir, "coca_reporter", "godeps.json"))
		if err != nil {
			o.Violate("cli/no-output", "`coca-golang analysis` wrote no godeps.json: %v", err)
			return
		}
		witness["godeps.json"] = truncate(string(b), 6000)
		if err := json.Unmarshal(b, &flat); err != nil {
			o.Violate("cli/output-not-json", "godeps.json does not parse: %v", err)
			return
		}
	} else {
		var ds []core_domain.CodeDataStruct
		var panicked bool
		var val, site string
		inDir(dir, func() {
			panicked, val, site = run.Guard(func() {
				ds = analysis.CommonAnalysis(ioutil.Discard, "proj", new(goapp.GoIdentApp), func(p string) bool { return strings.HasSuffix(p, ".go") }, true)
			})
		})
		if panicked {
			o.Violate("panic@"+site, "CommonAnalysis(GoIdentApp) panicked: %s", val)
			return
		}
		var err error
		if flat, err = toFlat(ds); err != nil {
			o.Violate("go/result-not-serialisable", "%v", err)
			return
		}
		witness["flat"] = flat
	}
	ms, st := oracle.CheckGoFlat(where, gofiles, flat)
	addStats(o, where, st)
	report(o, ms)
	o.Count("events_observed", len(flat))

	if c.Index < 64 {
		o.Sample = map[string]interface{}{"file": prim.File, "text": prim.Text, "files_in_case": len(gofiles),
			"observed_per_file_model": observed[prim.File], "flat_entries": len(flat), "via": where}
	}
}

func goNonTrivial(f *gopygen.GoFile) bool {
	if len(f.Structs())+len(f.Ifaces()) < 2 || len(f.Methods()) == 0 {
		return false
	}
	for _, fn := range append(f.Methods(), f.Funcs()...) {
		for _, s := range fn.Body {
			if s.Kind == gopygen.StCallPkg || s.Kind == gopygen.StCallRecv {
				return true
			}
		}
	}
	return false
}

func goDimensions(o *run.Outcome, f *gopygen.GoFile) {
	o.Count("dim_go_type_decls", len(f.Structs())+len(f.Ifaces()))
	if len(f.Structs())+len(f.Ifaces()) >= 2 {
		o.Count("dim_go_files_with_2plus_type_decls", 1)
	}
	for _, d := range f.Decls {
		if d.Group != nil {
			o.Count("dim_go_grouped_type_decl", 1)
		}
	}
	for _, s := range f.Structs() {
		for _, fl := range s.Fields {
			if len(fl.Names) > 1 {
				o.Count("dim_go_multi_name_field", 1)
			}
			if len(fl.Names) == 0 {
				o.Count("dim_go_embedded_field", 1)
			}
		}
	}
	for _, im := range f.Imports {
		if im.Raw && im.Alias != "" {
			o.Count("dim_go_raw_string_import_with_alias", 1)
		} else if im.Raw {
			o.Count("dim_go_raw_string_import", 1)
		}
	}
	blank := func(fs []gopygen.GoField) int {
		n := 0
		for _, fl := range fs {
			for _, name := range fl.Names {
				if name == "_" {
					n++
				}
			}
		}
		return n
	}
	for _, s := range f.Structs() {
		o.Count("dim_go_blank_field", blank(s.Fields))
	}
	for _, it := range f.Ifaces() {
		for _, m := range it.Methods {
			o.Count("dim_go_blank_param_in_interface_method", blank(m.Fields))
		}
	}
	for _, fn := range f.Funcs() {
		o.Count("dim_go_blank_param_in_function", blank(fn.Params))
		if fn.NoBody {
			o.Count("dim_go_function_without_body", 1)
		}
	}
	for _, m := range f.Methods() {
		o.Count("dim_go_blank_param_in_method", blank(m.Params))
		if m.AboveType {
			o.Count("dim_go_method_above_its_receiver_type", 1)
		}
	}
	for _, m := range f.Methods() {
		switch {
		case m.Recv.Var == "":
			o.Count("dim_go_unnamed_receiver", 1)
		case m.Recv.Pointer:
			o.Count("dim_go_pointer_receiver", 1)
		default:
			o.Count("dim_go_value_receiver", 1)
		}
	}
	for _, fn := range append(f.Methods(), f.Funcs()...) {
		for _, p := range fn.Params {
			if len(p.Names) > 1 {
				o.Count("dim_go_multi_name_param", 1)
			}
		}
		for _, s := range fn.AllStmts() {
			o.Count("dim_go_stmt_"+s.Kind, 1)
			if len(s.Inner) > 0 {
				o.Count("dim_go_call_statement_with_function_literal_argument", 1)
			}
			if s.InCallback && (s.Kind == gopygen.StCallPkg || s.Kind == gopygen.StCallRecv) {
				o.Count("dim_go_call_statements_inside_function_literals", 1)
			}
		}
	}
	switch f.GeneratedLine {
	case 1:
		o.Count("dim_go_code_generated_line_in_comment_below_package_clause", 1)
	case 2:
		o.Count("dim_go_code_generated_line_in_raw_string", 1)
	}
	o.Count("dim_go_inline_interface_types_with_methods", f.InlineIfaces)
	if f.InlineIfaces > 0 {
		o.Count("dim_go_files_with_inline_interface_type", 1)
	}
	o.Seen("go_import_layout", fmt.Sprint(f.ImportStyle))
}
