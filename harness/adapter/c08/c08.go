// Package c08 runs the same input several times (in one process and in fresh processes) and compares the outputs:
// the code model up to the order of functions inside a type, every derived report as a collection, and promised
// orders wherever the sort key is not tied. Every `range` over a map in the pipeline starts at a random position,
// so repetitions sample different "schedules" of the map-driven loops.
package c08

import (
	"bytes"
	"encoding/json"
	"fmt"
	"io/ioutil"
	"os"
	"path/filepath"
	"sort"
	"strings"

	"github.com/modernizing/coca/pkg/application/analysis/javaapp"
	"github.com/modernizing/coca/pkg/application/api"
	"github.com/modernizing/coca/pkg/application/arch"
	"github.com/modernizing/coca/pkg/application/arch/tequila"
	"github.com/modernizing/coca/pkg/application/bs"
	"github.com/modernizing/coca/pkg/application/call"
	"github.com/modernizing/coca/pkg/application/concept"
	"github.com/modernizing/coca/pkg/application/count"
	"github.com/modernizing/coca/pkg/application/evaluate"
	cocagit "github.com/modernizing/coca/pkg/application/git"
	"github.com/modernizing/coca/pkg/application/rcall"
	"github.com/modernizing/coca/pkg/application/tbs"
	"github.com/modernizing/coca/pkg/domain/core_domain"
	"github.com/modernizing/coca/pkg/infrastructure/ast/ast_go"
	"github.com/modernizing/coca/pkg/infrastructure/string_helper"

	"verifharness/adapter/c13"
	"verifharness/adapter/common"
	"verifharness/gen/archgen"
	"verifharness/gen/gitgen"
	"verifharness/gen/gopygen"
	"verifharness/gen/javagen"
	"verifharness/gen/testsmellgen"
	"verifharness/gen/treegen"
	"verifharness/obs"
	"verifharness/oracle"
	"verifharness/run"
)

func cases(tier string) int {
	if tier == "thorough" {
		return 640
	}
	return 80
}

func reps(tier string) (inProc, procs int) {
	if tier == "thorough" {
		return 16, 6
	}
	return 8, 4
}

var Check = &run.Check{
	ID:    "C08",
	Level: "exploration",
	Rule: "case kinds by index mod 8: 0-2 a generated Java project (3-12 methods per type, nullable methods, controllers, test classes) analysed N times in one process (identifier pass, full pass, and from the model: call graph, reverse call graph + map, " +
		"architecture graph + DOT, bad-smell list, test-smell list, API list, reference counts in listing order, evaluation summary, concept list); 3 the same through the CLI pipeline in M fresh processes " +
		"(analysis, call, rcall, arch, bs, tbs, api -f -c, count, evaluate, concept: files under coca_reporter and stdout); 5 a synthesised git history through the five summaries N times; 6 a generated tree through `coca cloc --by-directory` and --top-file M times; " +
		"7 a generated Go file through the Go front-end N times; 4 a generated architecture model (many packages) through ArchApp.Analysis, both merges, DOT and the fan table N times. Outputs are compared after canonicalisation: model up to function order, reports as collections, promised orders on untied keys. " +
		"non-trivial = the input has >= 3 rows in some report / >= 3 functions in some type; distinct = hash of the input shape. The monitor also counts how many distinct function orders it saw (evidence that different map schedules were sampled).",
	Assumptions: []string{
		"order among tied sort keys, order of unordered collections and the order of functions inside a type are free",
		"method names are unique per class (overload-dependent content is out of scope, DESIGN §7)",
		"wall-clock dependent fields (code age in months) are not compared",
	},
	Cases: cases,
	Floor: func(tier string) int {
		if tier == "thorough" {
			return 100
		}
		return 8
	},
	Run: runCase,
}

// ---- canonicalisation helpers

func toGeneric(v interface{}) interface{} {
	b, err := json.Marshal(v)
	if err != nil {
		return "UNSERIALISABLE: " + err.Error()
	}
	var g interface{}
	json.Unmarshal(b, &g)
	return g
}

// canon renders a JSON value; arrays found under one of the unordered keys ("" = the top level) are sorted.
func canon(g interface{}, unordered map[string]bool, key string, depth int) string {
	switch x := g.(type) {
	case map[string]interface{}:
		var ks []string
		for k := range x {
			ks = append(ks, k)
		}
		sort.Strings(ks)
		var parts []string
		for _, k := range ks {
			parts = append(parts, fmt.Sprintf("%q:%s", k, canon(x[k], unordered, k, depth+1)))
		}
		return "{" + strings.Join(parts, ",") + "}"
	case []interface{}:
		var parts []string
		for _, e := range x {
			parts = append(parts, canon(e, unordered, key, depth+1))
		}
		if unordered["*"] || unordered[key] || (depth == 0 && unordered[""]) {
			sort.Strings(parts)
		}
		return "[" + strings.Join(parts, ",") + "]"
	default:
		b, _ := json.Marshal(x)
		return string(b)
	}
}

var modelUnordered = map[string]bool{"": true, "Functions": true}
var listUnordered = map[string]bool{"": true}
var allUnordered = map[string]bool{"*": true}

// stripNoise removes the wall-clock line the CLI prints ("App elapsed: ...").
func stripNoise(stdout string) string {
	var keep []string
	for _, l := range strings.Split(stdout, "\n") {
		if strings.HasPrefix(strings.TrimSpace(l), "App elapsed") {
			continue
		}
		keep = append(keep, l)
	}
	return strings.Join(keep, "\n")
}

// withoutProjectLevel drops graphConnectedCall findings: they are computed by a third-party accumulator
// (github.com/huleTW/bad-smell-analysis keeps its result list in a package variable), so inside ONE process their
// number grows with every repetition; that is repetition state (C07's subject), not a property of a run. The
// fresh-process comparison below keeps them.
func withoutProjectLevel(g interface{}) interface{} {
	arr, ok := g.([]interface{})
	if !ok {
		return g
	}
	var out []interface{}
	for _, e := range arr {
		if m, ok := e.(map[string]interface{}); ok && m["BS"] == "graphConnectedCall" {
			continue
		}
		out = append(out, e)
	}
	return out
}

func canonModel(ds []core_domain.CodeDataStruct) string {
	return canon(toGeneric(ds), modelUnordered, "", 0)
}

func edgeSet(dot string) string {
	es, err := obs.ParseEdgeListDot(dot)
	if err != nil {
		return "MALFORMED DOT: " + err.Error()
	}
	set := map[string]bool{}
	for _, e := range es {
		set[e.From+" -> "+e.To] = true
	}
	var ks []string
	for k := range set {
		ks = append(ks, k)
	}
	sort.Strings(ks)
	return strings.Join(ks, "\n")
}

func archDotCanon(dot string) string {
	d, err := oracle.ParseArchDot(dot)
	if err != nil {
		return "MALFORMED DOT: " + err.Error()
	}
	name := map[string]string{}
	var nodes []string
	for _, l := range d.Leaves {
		name[l.ID] = l.Full()
		nodes = append(nodes, l.Full())
	}
	sort.Strings(nodes)
	var edges []string
	for _, e := range d.Edges {
		edges = append(edges, name[e.From]+" -> "+name[e.To])
	}
	sort.Strings(edges)
	return "nodes " + strings.Join(nodes, ",") + "\nedges " + strings.Join(edges, ",")
}

// untied keeps the ids whose key occurs once, in their order of appearance.
func untied(keys []string, ids []string) string {
	n := map[string]int{}
	for _, k := range keys {
		n[k]++
	}
	var out []string
	for i, k := range keys {
		if n[k] == 1 {
			out = append(out, ids[i])
		}
	}
	return strings.Join(out, " < ")
}

type observation map[string]string // report name -> canonical text

func compare(o *run.Outcome, what string, runs []observation) {
	if len(runs) < 2 {
		return
	}
	base := runs[0]
	for i := 1; i < len(runs); i++ {
		for k, v := range base {
			o.Count("comparisons", 1)
			if w, ok := runs[i][k]; !ok || w != v {
				o.Violate("differs-between-runs/"+k, "%s: report %q of run %d differs from run 1 on identical input: %s", what, k, i+1, firstDiff(v, w))
			}
		}
	}
}

func firstDiff(a, b string) string {
	k := 0
	for k < len(a) && k < len(b) && a[k] == b[k] {
		k++
	}
	from := k - 100
	if from < 0 {
		from = 0
	}
	end := func(s string) string {
		e := k + 140
		if e > len(s) {
			e = len(s)
		}
		if from > len(s) {
			return ""
		}
		return s[from:e]
	}
	return fmt.Sprintf("…%s… vs …%s…", end(a), end(b))
}

func runCase(c *run.Ctx, o *run.Outcome) {
	switch c.Index % 8 {
	case 0, 1, 2:
		javaInProcess(c, o)
	case 4:
		archCase(c, o)
	case 3:
		javaCLI(c, o)
	case 5:
		gitCase(c, o)
	case 6:
		clocCase(c, o)
	default:
		goCase(c, o)
	}
}

// ---- Java projects

var jopts = javagen.Opts{MinFiles: 3, MaxFiles: 7, MaxMethods: 12, MaxParams: 3, MaxFields: 4, Interfaces: true, Generics: true, Annotations: true, Ctors: true,
	Bodies: true, MaxStmts: 6, MaxSites: 16, Lambdas: true, HotBias: 4, FieldsFirst: true, SameNameTwoPkgs: true, ExoticNames: true}

func controllerText(r *run.Rand, i int) string {
	var sb strings.Builder
	sb.WriteString("package com.acme.web;\n\nimport org.springframework.web.bind.annotation.*;\n\n@RestController\n")
	if r.Bool() {
		sb.WriteString(fmt.Sprintf("@RequestMapping(\"/base%d\")\n", i))
	}
	sb.WriteString(fmt.Sprintf("public class Web%dController {\n", i))
	for k := r.Range(2, 4); k > 0; k-- {
		sb.WriteString(fmt.Sprintf("    @%s(\"/m%d_%d\")\n    public String handle%d_%d() {\n        if (this == null) {\n            return null;\n        }\n        return \"x\";\n    }\n",
			r.Pick([]string{"GetMapping", "PostMapping", "PutMapping", "DeleteMapping"}), i, k, i, k))
	}
	sb.WriteString("}\n")
	return sb.String()
}

// buildJavaTree writes a project (main classes, controllers, a test tree) and returns a root method for graphs.
func buildJavaTree(c *run.Ctx, o *run.Outcome, dir string) (root string, ok bool) {
	r := c.Rng
	p := javagen.Generate(r.Fork(), jopts)
	maxM := 0
	for _, f := range p.Files {
		if f.Type == nil {
			continue
		}
		if ne, first := common.JavaSyntaxErrors(f.Text); ne > 0 {
			o.SetInconclusive("generated file rejected by coca's Java parser: " + first)
			return "", false
		}
		if n := len(f.Type.Methods()); n > maxM {
			maxM = n
		}
		if len(f.AmbiguousNames) > 0 {
			o.Count("files_using_a_simple_name_declared_in_two_other_packages", 1)
		}
	}
	if _, err := common.WriteProject(dir, p); err != nil {
		o.SetInconclusive("cannot write project")
		return "", false
	}
	for i := 0; i < r.Range(1, 3); i++ {
		path := filepath.Join(dir, "web", fmt.Sprintf("Web%dController.java", i))
		os.MkdirAll(filepath.Dir(path), 0o755)
		ioutil.WriteFile(path, []byte(controllerText(r, i)), 0o644)
	}
	// service classes with different lifecycles (two to four methods sharing a leading verb): the evaluation summary
	// reports them per service
	verbs := []string{"sync", "load", "charge", "ship", "audit", "refund", "merge", "publish"}
	for i := 0; i < r.Range(2, 5); i++ {
		var sb strings.Builder
		sb.WriteString(fmt.Sprintf("package com.acme.svc;\n\npublic class Billing%dService {\n", i))
		for k := r.Range(1, 3); k > 0; k-- {
			v := verbs[(i*3+k)%len(verbs)]
			sb.WriteString(fmt.Sprintf("    public void %sOrder%d() { }\n    public void %sInvoice%d() { }\n", v, i, v, i))
			// two, three or four methods per verb (no draw: the rest of the project stays what it was)
			for x, noun := range []string{"Parcel", "Ledger"}[:(i+k)%3] {
				sb.WriteString(fmt.Sprintf("    public void %s%s%d() { }\n", v, noun, i+x))
			}
		}
		sb.WriteString("    public String describe() { return \"\"; }\n}\n")
		path := filepath.Join(dir, "svc", fmt.Sprintf("Billing%dService.java", i))
		os.MkdirAll(filepath.Dir(path), 0o755)
		ioutil.WriteFile(path, []byte(sb.String()), 0o644)
	}
	// the same simple class name in 2-4 packages, used from another package through an on-demand import (or none):
	// whichever class the tool attributes, it must be the same one in every execution
	if r.Chance(2, 3) {
		word := r.Pick([]string{"Formatter", "Codec", "Clock", "Registry"})
		nSame := r.Range(2, 4)
		for i := 0; i < nSame; i++ {
			pk := fmt.Sprintf("com.acme.same.p%d", i)
			text := fmt.Sprintf("package %s;\n\npublic class %s {\n    public String render%d(String in) { return in; }\n    public void reset() { }\n}\n", pk, word, i)
			path := filepath.Join(dir, "same", fmt.Sprintf("p%d", i), word+".java")
			os.MkdirAll(filepath.Dir(path), 0o755)
			ioutil.WriteFile(path, []byte(text), 0o644)
		}
		for u := 0; u < r.Range(1, 2); u++ {
			var sb strings.Builder
			sb.WriteString("package com.acme.same.use;\n\n")
			if r.Chance(3, 4) {
				sb.WriteString(fmt.Sprintf("import com.acme.same.p%d.*;\n\n", r.Intn(nSame)))
			}
			sb.WriteString(fmt.Sprintf("public class Printer%d", u))
			if r.Bool() {
				sb.WriteString(" extends " + word)
			}
			sb.WriteString(" {\n    private " + word + " shared;\n")
			sb.WriteString("    public String print(" + word + " given, String text) {\n        " + word + " local = new " + word + "();\n        local.reset();\n        given.reset();\n        shared.reset();\n        return text;\n    }\n}\n")
			path := filepath.Join(dir, "same", "use", fmt.Sprintf("Printer%d.java", u))
			os.MkdirAll(filepath.Dir(path), 0o755)
			ioutil.WriteFile(path, []byte(sb.String()), 0o644)
		}
		o.Count("projects_with_one_simple_class_name_in_several_packages_used_from_another", 1)
	}
	// an override chain of 3-5 levels (interface, abstract class, classes) with the method declared on every level and
	// called through every level
	if r.Chance(2, 3) {
		levels := r.Range(3, 5)
		write := func(name, text string) {
			path := filepath.Join(dir, "chain", name+".java")
			os.MkdirAll(filepath.Dir(path), 0o755)
			ioutil.WriteFile(path, []byte("package com.acme.chain;\n\n"+text), 0o644)
		}
		write("Store", "public interface Store {\n    void save(String key);\n    int size();\n}\n")
		write("Store1", "public abstract class Store1 implements Store {\n    public void save(String key) { }\n    public int size() { return 0; }\n}\n")
		for l := 2; l < levels; l++ {
			write(fmt.Sprintf("Store%d", l), fmt.Sprintf("public class Store%d extends Store%d {\n    @Override public void save(String key) { }\n    @Override public int size() { return %d; }\n}\n", l, l-1, l))
		}
		var sb strings.Builder
		sb.WriteString("public class StoreClient {\n    void run(Store s0")
		for l := 1; l < levels; l++ {
			sb.WriteString(fmt.Sprintf(", Store%d s%d", l, l))
		}
		sb.WriteString(") {\n")
		for l := 0; l < levels; l++ {
			for k := r.Range(1, 3); k > 0; k-- {
				sb.WriteString(fmt.Sprintf("        s%d.save(\"k\");\n", l))
			}
			if r.Bool() {
				sb.WriteString(fmt.Sprintf("        s%d.size();\n", l))
			}
		}
		sb.WriteString("    }\n}\n")
		write("StoreClient", sb.String())
		o.Count("projects_with_an_override_chain_of_3+_levels", 1)
	}
	// a hub class that calls 11-16 project classes, some of which call one another (connected-call findings)
	if r.Chance(2, 3) {
		nHub := r.Range(11, 16)
		write := func(name, text string) {
			path := filepath.Join(dir, "hub", name+".java")
			os.MkdirAll(filepath.Dir(path), 0o755)
			ioutil.WriteFile(path, []byte("package com.acme.hub;\n\n"+text), 0o644)
		}
		var hub strings.Builder
		hub.WriteString("public class Hub {\n")
		for i := 0; i < nHub; i++ {
			hub.WriteString(fmt.Sprintf("    private Spoke%d s%d;\n", i, i))
		}
		hub.WriteString("    public void run() {\n")
		for _, i := range r.Perm(nHub) {
			hub.WriteString(fmt.Sprintf("        s%d.work%d();\n", i, i))
		}
		hub.WriteString("    }\n}\n")
		write("Hub", hub.String())
		for i := 0; i < nHub; i++ {
			body := ""
			if r.Chance(1, 2) {
				j := r.Intn(nHub)
				body = fmt.Sprintf("        next.work%d();\n", j)
				write(fmt.Sprintf("Spoke%d", i), fmt.Sprintf("public class Spoke%d {\n    private Spoke%d next;\n    public void work%d() {\n%s    }\n}\n", i, j, i, body))
			} else {
				write(fmt.Sprintf("Spoke%d", i), fmt.Sprintf("public class Spoke%d {\n    public void work%d() { }\n}\n", i, i))
			}
		}
		o.Count("projects_with_a_class_of_fan_out_above_10", 1)
	}
	// a generated-looking class with 70-110 methods of pairwise different parameter counts (6..): one sized bad-smell
	// kind with many findings whose sizes are untied, written in shuffled order (`bs -s type` must order them all)
	if r.Chance(2, 3) {
		nWide := r.Range(70, 110)
		var sb strings.Builder
		sb.WriteString("package com.acme.gen;\n\npublic class WideFacade {\n")
		for _, k := range r.Perm(nWide) {
			sb.WriteString(fmt.Sprintf("    public void call%d(", k))
			for a := 0; a < 6+k; a++ {
				if a > 0 {
					sb.WriteString(", ")
				}
				sb.WriteString(fmt.Sprintf("int a%d", a))
			}
			sb.WriteString(") { }\n")
		}
		sb.WriteString("}\n")
		path := filepath.Join(dir, "gen", "WideFacade.java")
		os.MkdirAll(filepath.Dir(path), 0o755)
		ioutil.WriteFile(path, []byte(sb.String()), 0o644)
		o.Count("projects_with_a_sized_smell_kind_of_70+_untied_findings", 1)
	}
	// tests that call other tests whose assertion comes through a helper (chains of 3-5)
	if r.Chance(2, 3) {
		var sb strings.Builder
		sb.WriteString("package tbs.chain;\n\nimport org.junit.Test;\nimport static org.junit.Assert.assertEquals;\n\npublic class ChainTest {\n")
		nChain := r.Range(3, 5)
		order := r.Perm(nChain)
		for _, k := range order {
			if k == 0 {
				sb.WriteString("    @Test\n    public void step0() {\n        check(1);\n    }\n")
			} else {
				sb.WriteString(fmt.Sprintf("    @Test\n    public void step%d() {\n        step%d();\n    }\n", k, k-1))
			}
		}
		sb.WriteString("    private void check(int v) {\n        assertEquals(1, v);\n    }\n}\n")
		path := filepath.Join(dir, "tests", "src", "test", "java", "tbs", "chain", "ChainTest.java")
		os.MkdirAll(filepath.Dir(path), 0o755)
		ioutil.WriteFile(path, []byte(sb.String()), 0o644)
		o.Count("projects_with_tests_calling_tests", 1)
	}
	tt := testsmellgen.Generate(r.Fork())
	for _, f := range tt.Files {
		path := filepath.Join(dir, "tests", filepath.FromSlash(f.RelPath))
		os.MkdirAll(filepath.Dir(path), 0o755)
		ioutil.WriteFile(path, []byte(f.Text), 0o644)
	}
	root = p.HotPkg + "." + p.HotClass + "." + p.HotMethod
	o.Shape = run.ShapeHash("java", len(p.Files), maxM, len(tt.Files), p.Layout, c.Index%8)
	o.NonTrivial = maxM >= 3
	return root, true
}

func functionOrder(ds []core_domain.CodeDataStruct) string {
	var sb strings.Builder
	for _, d := range ds {
		if len(d.Functions) >= 3 {
			sb.WriteString(d.NodeName + ":")
			for _, f := range d.Functions {
				sb.WriteString(f.Name + fmt.Sprint(f.Position.StartLine) + ",")
			}
			sb.WriteString(";")
		}
	}
	return sb.String()
}

func javaInProcess(c *run.Ctx, o *run.Outcome) {
	dir := filepath.Join(c.Scratch(), "proj")
	root, ok := buildJavaTree(c, o, dir)
	if !ok {
		return
	}
	n, _ := reps(c.Tier)
	o.Count("java_in_process_cases", 1)
	var runs []observation
	orders := map[string]bool{}
	for i := 0; i < n; i++ {
		ob := observation{}
		panicked, val, site := run.Guard(func() {
			ia := javaapp.NewJavaIdentifierApp()
			ident := ia.AnalysisPath(dir)
			fa := javaapp.NewJavaFullApp()
			full := fa.AnalysisPath(dir, ident)
			orders[functionOrder(full)] = true
			identMap := core_domain.BuildIdentifierMap(ident)
			ob["identifier model"] = canonModel(ident)
			ob["full model"] = canonModel(full)
			ob["call graph edges"] = edgeSet(call.NewCallGraph().Analysis(root, full, false))
			var rmap map[string][]string
			ob["reverse call graph edges"] = edgeSet(rcall.NewRCallGraph().Analysis(root, full, func(m map[string][]string) { rmap = m }))
			ob["reverse call map"] = canon(toGeneric(rmap), allUnordered, "", 1)
			g := arch.NewArchApp().Analysis(full, identMap)
			var nodes, rels []string
			for k := range g.NodeList {
				nodes = append(nodes, k)
			}
			for _, rel := range g.RelationList {
				rels = append(rels, rel.From+" -> "+rel.To)
			}
			sort.Strings(nodes)
			sort.Strings(rels)
			ob["architecture nodes+relations"] = strings.Join(nodes, ",") + " | " + strings.Join(rels, ",")
			ob["architecture dot"] = archDotCanon(g.ToMapDot(func(string) bool { return true }).String())
			// fan table (fan-in + fan-out per merged package): rows as a collection, order on untied totals
			var fanRows, fanKeys, fanIDs []string
			for _, f := range g.SortedByFan(tequila.MergeHeaderFunc) {
				fanRows = append(fanRows, fmt.Sprintf("%s in=%d out=%d", f.Name, f.FanIn, f.FanOut))
				fanKeys = append(fanKeys, fmt.Sprint(f.FanIn+f.FanOut))
				fanIDs = append(fanIDs, f.Name)
			}
			sort.Strings(fanRows)
			ob["architecture fan table rows"] = strings.Join(fanRows, ",")
			ob["architecture fan table order (untied totals)"] = untied(fanKeys, fanIDs)
			bsApp := bs.NewBadSmellApp()
			ob["bad-smell list"] = canon(withoutProjectLevel(toGeneric(bsApp.IdentifyBadSmell(bsApp.AnalysisPath(dir), nil))), listUnordered, "", 0)
			apis := new(api.JavaApiApp).AnalysisPath(dir, full, identMap, map[string]string{})
			ob["api list"] = canon(toGeneric(apis), listUnordered, "", 0)
			cm := count.BuildCallMap(full)
			ob["reference counts"] = canon(toGeneric(cm), map[string]bool{}, "", 1)
			var listing []string
			for _, pr := range string_helper.SortWord(cm) {
				listing = append(listing, pr.Key)
			}
			ob["reference count listing order"] = strings.Join(listing, " < ")
			ev := evaluate.NewEvaluateAnalyser().Analysis(full, ident)
			ob["evaluation summary"] = canon(toGeneric(ev), allUnordered, "", 1)
			cl := concept.NewConceptAnalyser().Analysis(&full)
			ob["concept list"] = canon(toGeneric(cl), listUnordered, "", 0)
			// test smells: wired as cmd/tbs.go does
			tfiles := javaTestFiles(dir)
			tident := ia.AnalysisFiles(tfiles)
			tnodes := fa.AnalysisFiles(tident, tfiles)
			ob["test-smell list"] = canon(toGeneric(tbs.NewTbsApp().AnalysisPath(tnodes, core_domain.BuildIdentifierMap(tident))), listUnordered, "", 0)
		})
		if panicked {
			o.SetInconclusive("pipeline panicked @" + site + ": " + val + " (C09's business)")
			return
		}
		runs = append(runs, ob)
	}
	o.Count("executions", n)
	for ord := range orders {
		o.Seen("function_orders_of_multi_method_types", run.ShapeHash(ord))
	}
	o.Count("distinct_function_orders_in_case", len(orders))
	o.Witness = map[string]interface{}{"root": root, "note": "re-generate with --replay; the project is a function of (seed, case)"}
	compare(o, "in-process repetition", runs)
	if c.Index < 64 {
		o.Sample = map[string]interface{}{"kind": "java project, in-process", "repetitions": n, "reports": keysOf(runs[0]), "distinct_function_orders_seen_in_this_case": len(orders)}
	}
}

func keysOf(ob observation) []string {
	var ks []string
	for k := range ob {
		ks = append(ks, k)
	}
	sort.Strings(ks)
	return ks
}

func javaTestFiles(dir string) []string {
	var out []string
	filepath.Walk(dir, func(p string, fi os.FileInfo, err error) error {
		if err == nil && !fi.IsDir() && strings.HasSuffix(p, ".java") {
			s := filepath.ToSlash(p)
			if strings.HasSuffix(s, "Test.java") || strings.HasSuffix(s, "Tests.java") || strings.Contains(s, "src/test/java/") {
				out = append(out, p)
			}
		}
		return nil
	})
	return out
}

func readCanon(path string, unordered map[string]bool) string {
	b, err := ioutil.ReadFile(path)
	if err != nil {
		return "MISSING"
	}
	var g interface{}
	if json.Unmarshal(b, &g) != nil {
		return "NOT JSON: " + string(b)
	}
	return canon(g, unordered, "", 0)
}

func sortedLines(s string) string {
	ls := strings.Split(strings.TrimSpace(s), "\n")
	sort.Strings(ls)
	return strings.Join(ls, "\n")
}

func javaCLI(c *run.Ctx, o *run.Outcome) {
	if c.CocaBin == "" {
		o.SetInconclusive("no coca binary")
		return
	}
	dir := filepath.Join(c.Scratch(), "proj")
	root, ok := buildJavaTree(c, o, dir)
	if !ok {
		return
	}
	_, m := reps(c.Tier)
	o.Count("java_cli_cases", 1)
	var runs []observation
	for i := 0; i < m; i++ {
		wd := filepath.Join(c.Scratch(), fmt.Sprintf("run%d", i))
		os.MkdirAll(wd, 0o755)
		rep := filepath.Join(wd, "coca_reporter")
		ob := observation{}
		step := func(args ...string) (common.CLIResult, bool) {
			res := common.RunCLI(c.CocaBin, wd, nil, args...)
			if res.TimedOut || res.ExitCode != 0 || strings.Contains(res.Stderr, "panic:") {
				o.SetInconclusive("`coca " + args[0] + "` failed (C09's business): " + strings.TrimSpace(res.Stderr))
				return res, false
			}
			return res, true
		}
		if _, ok := step("analysis", "-p", dir); !ok {
			return
		}
		var full, ident []core_domain.CodeDataStruct
		fb, _ := ioutil.ReadFile(filepath.Join(rep, "deps.json"))
		ib, _ := ioutil.ReadFile(filepath.Join(rep, "identify.json"))
		json.Unmarshal(fb, &full)
		json.Unmarshal(ib, &ident)
		ob["deps.json"] = canonModel(full)
		ob["identify.json"] = canonModel(ident)
		if _, ok := step("call", "-c", root); !ok {
			return
		}
		cb, _ := ioutil.ReadFile(filepath.Join(rep, "call.dot"))
		ob["call.dot edges"] = edgeSet(string(cb))
		if _, ok := step("rcall", "-c", root); !ok {
			return
		}
		rb, _ := ioutil.ReadFile(filepath.Join(rep, "rcall.dot"))
		ob["rcall.dot edges"] = edgeSet(string(rb))
		ob["rcallmap.json"] = readCanon(filepath.Join(rep, "rcallmap.json"), allUnordered)
		if _, ok := step("arch"); !ok {
			return
		}
		ab, _ := ioutil.ReadFile(filepath.Join(rep, "arch.dot"))
		ob["arch.dot"] = archDotCanon(strings.Replace(string(ab), "digraph", "graph", 1))
		if _, ok := step("bs", "-p", dir); !ok {
			return
		}
		ob["bs.json"] = readCanon(filepath.Join(rep, "bs.json"), listUnordered)
		if _, ok := step("bs", "-p", dir, "-s", "type"); !ok {
			return
		}
		ob["bs.json sorted by type"] = bsSortedCanon(filepath.Join(rep, "bs.json"))
		if _, ok := step("tbs", "-p", filepath.Join(dir, "tests")); !ok {
			return
		}
		ob["tbs.json"] = readCanon(filepath.Join(rep, "tbs.json"), listUnordered)
		if res, ok := step("api", "-f", "-c", "-p", dir); !ok {
			return
		} else {
			ob["apis.json"] = readCanon(filepath.Join(rep, "apis.json"), listUnordered)
			ob["api -c table rows"] = sortedLines(stripNoise(res.Stdout))
		}
		if res, ok := step("api", "-c", "-s"); ok {
			ob["api -c -s order of untied sizes"] = apiSizeOrder(stripNoise(res.Stdout))
		} else {
			return
		}
		if res, ok := step("count"); ok {
			ob["count listing"] = stripNoise(res.Stdout)
		} else {
			return
		}
		if res, ok := step("evaluate"); ok {
			ob["evaluate table"] = stripNoise(res.Stdout)
			ob["evaluate.json"] = readCanon(filepath.Join(rep, "evaluate.json"), allUnordered)
		} else {
			return
		}
		if res, ok := step("concept"); ok {
			ob["concept listing"] = stripNoise(res.Stdout)
		} else {
			return
		}
		runs = append(runs, ob)
	}
	o.Count("executions", m)
	o.Witness = map[string]interface{}{"root": root}
	compare(o, "fresh processes", runs)
	if c.Index < 64 {
		o.Sample = map[string]interface{}{"kind": "java project, CLI pipeline in fresh processes", "processes": m, "reports": keysOf(runs[0])}
	}
}

// bsSortedCanon: `bs -s type` writes kind -> list; keys as a set, sized lists as the sequence of their untied sizes plus
// the collection.
func bsSortedCanon(path string) string {
	b, err := ioutil.ReadFile(path)
	if err != nil {
		return "MISSING"
	}
	var m map[string][]map[string]interface{}
	if json.Unmarshal(b, &m) != nil {
		return "NOT A MAP: " + string(b)
	}
	var kinds []string
	for k := range m {
		kinds = append(kinds, k)
	}
	sort.Strings(kinds)
	var parts []string
	for _, k := range kinds {
		var keys, ids, all []string
		for _, f := range m[k] {
			id := canon(f, map[string]bool{}, "", 1)
			keys = append(keys, fmt.Sprint(f["Size"]))
			ids = append(ids, id)
			all = append(all, id)
		}
		sort.Strings(all)
		parts = append(parts, k+": order of untied sizes ["+untied(keys, keys)+"] collection ["+strings.Join(all, ",")+"]")
	}
	return strings.Join(parts, "\n")
}

func apiSizeOrder(stdout string) string {
	var keys, ids []string
	for _, line := range strings.Split(stdout, "\n") {
		cells := strings.Split(line, "|")
		if len(cells) < 5 {
			continue
		}
		size := strings.TrimSpace(cells[1])
		if size == "" || size == "SIZE" {
			continue
		}
		keys = append(keys, size)
		ids = append(ids, strings.TrimSpace(cells[2])+" "+strings.TrimSpace(cells[3]))
	}
	return untied(keys, ids)
}

// ---- architecture models (many packages: merge, fan table)

func archCase(c *run.Ctx, o *run.Outcome) {
	m := archgen.Generate(c.Rng.Fork(), archgen.Opts{MaxTypes: 30, MinPkgDepth: 2})
	deps, idmap, _ := c13.ToCoca(m)
	n, _ := reps(c.Tier)
	o.Count("arch_model_cases", 1)
	o.Shape = run.ShapeHash("arch", len(m.Types))
	o.NonTrivial = len(m.Types) >= 6
	// `coca arch -x WORD[,WORD]` includes a node when its key contains one of the words: words that occur in some class
	// names (and maybe in no package name), alone and together with a package prefix
	ft := m.Types[c.Rng.Intn(len(m.Types))]
	filters := [][]string{{ft.Name}, {ft.Name, m.Types[c.Rng.Intn(len(m.Types))].Pkg}}
	contains := func(words []string) func(string) bool {
		return func(key string) bool {
			for _, w := range words {
				if strings.Contains(key, w) {
					return true
				}
			}
			return false
		}
	}
	var runs []observation
	for i := 0; i < n; i++ {
		ob := observation{}
		panicked, val, site := run.Guard(func() {
			g := arch.NewArchApp().Analysis(deps, idmap)
			for _, merge := range []struct {
				name string
				f    func(string) string
			}{{"header", tequila.MergeHeaderFunc}, {"package", tequila.MergePackageFunc}} {
				mg := g.MergeHeaderFile(merge.f)
				var nodes, rels []string
				for k := range mg.NodeList {
					nodes = append(nodes, k)
				}
				for _, rel := range mg.RelationList {
					rels = append(rels, rel.From+" -> "+rel.To)
				}
				sort.Strings(nodes)
				sort.Strings(rels)
				ob["merged by "+merge.name+": nodes+relations"] = strings.Join(nodes, ",") + " | " + strings.Join(rels, ",")
				ob["merged by "+merge.name+": dot"] = archDotCanon(mg.ToMapDot(func(string) bool { return true }).String())
				for fi, words := range filters {
					ob[fmt.Sprintf("merged by %s: dot filtered by -x word set %d", merge.name, fi)] = archDotCanon(mg.ToMapDot(contains(words)).String())
				}
				var fanRows, fanKeys, fanIDs []string
				for _, f := range g.SortedByFan(merge.f) {
					fanRows = append(fanRows, fmt.Sprintf("%s in=%d out=%d", f.Name, f.FanIn, f.FanOut))
					fanKeys = append(fanKeys, fmt.Sprint(f.FanIn+f.FanOut))
					fanIDs = append(fanIDs, f.Name)
				}
				sort.Strings(fanRows)
				ob["fan table by "+merge.name+": rows"] = strings.Join(fanRows, ",")
				ob["fan table by "+merge.name+": order (untied totals)"] = untied(fanKeys, fanIDs)
			}
			ob["type graph dot"] = archDotCanon(g.ToMapDot(func(string) bool { return true }).String())
			for fi, words := range filters {
				ob[fmt.Sprintf("type graph dot filtered by -x word set %d", fi)] = archDotCanon(g.ToMapDot(contains(words)).String())
			}
		})
		if panicked {
			o.SetInconclusive("architecture analysis panicked @" + site + ": " + val + " (C13's business)")
			return
		}
		runs = append(runs, ob)
	}
	o.Count("executions", n)
	compare(o, "in-process repetition", runs)
	if c.Index < 64 {
		o.Sample = map[string]interface{}{"kind": "architecture model", "types": len(m.Types), "repetitions": n, "reports": keysOf(runs[0])}
	}
}

// ---- git summaries

func gitCase(c *run.Ctx, o *run.Outcome) {
	r := c.Rng
	hist, _ := gitgen.SynthHistory(r.Fork(), gitgen.SynthOpts{MaxCommits: 40, MaxAuthors: 10, MaxFiles: 15, MaxChain: 3})
	var msgs []cocagit.CommitMessage
	for _, cm := range hist {
		m := cocagit.CommitMessage{Rev: cm.Rev, Author: cm.Author, Date: cm.Date, Message: cm.Message}
		for _, ch := range cm.Changes {
			m.Changes = append(m.Changes, cocagit.FileChange{Added: ch.Added, Deleted: ch.Deleted, File: ch.File, Mode: ch.Mode})
		}
		msgs = append(msgs, m)
	}
	logText := gitgen.RenderLog(hist)
	n, _ := reps(c.Tier)
	o.Count("git_cases", 1)
	o.Shape = run.ShapeHash("git", len(hist))
	o.NonTrivial = len(hist) >= 3
	o.Witness = map[string]interface{}{"history": hist}
	var runs []observation
	for i := 0; i < n; i++ {
		ob := observation{}
		panicked, val, site := run.Guard(func() {
			cp := append([]cocagit.CommitMessage(nil), msgs...)
			team := cocagit.GetTeamSummary(cp)
			ob["team summary"] = canon(toGeneric(team), listUnordered, "", 0)
			var keys, ids []string
			for _, t := range team {
				keys = append(keys, fmt.Sprint(t.RevsCount))
				ids = append(ids, t.EntityName)
			}
			ob["team summary order (untied revisions)"] = untied(keys, ids)
			age := cocagit.CalculateCodeAge(cp)
			keys, ids = nil, nil
			var rows []string
			for _, a := range age {
				keys = append(keys, a.Age.String())
				ids = append(ids, a.EntityName)
				rows = append(rows, a.EntityName+"@"+a.Age.String())
			}
			sort.Strings(rows)
			ob["code age"] = strings.Join(rows, ",")
			ob["code age order (untied dates)"] = untied(keys, ids)
			top := cocagit.GetTopAuthors(cp)
			ob["top authors"] = canon(toGeneric(top), listUnordered, "", 0)
			keys, ids = nil, nil
			for _, t := range top {
				keys = append(keys, fmt.Sprint(t.CommitCount))
				ids = append(ids, t.Name)
			}
			ob["top authors order (untied commit counts)"] = untied(keys, ids)
			ob["basic summary"] = canon(toGeneric(cocagit.BasicSummary(cp)), map[string]bool{}, "", 1)
			// the same summaries from the history as the log parser delivers it (the order of the changes inside a
			// commit is whatever the parser produces in this execution)
			parsed := cocagit.BuildMessageByInput(logText)
			ob["top authors (parsed log)"] = canon(toGeneric(cocagit.GetTopAuthors(parsed)), listUnordered, "", 0)
			ob["team summary (parsed log)"] = canon(toGeneric(cocagit.GetTeamSummary(parsed)), listUnordered, "", 0)
			ob["basic summary (parsed log)"] = canon(toGeneric(cocagit.BasicSummary(parsed)), map[string]bool{}, "", 1)
			var ageRows []string
			for _, a := range cocagit.CalculateCodeAge(parsed) {
				ageRows = append(ageRows, a.EntityName+"@"+a.Age.String())
			}
			sort.Strings(ageRows)
			ob["code age (parsed log)"] = strings.Join(ageRows, ",")
			ob["changelog map"] = canon(toGeneric(cocagit.BuildChangeMap(cp)), map[string]bool{}, "", 1)
			// the printed changelog summary (`coca git -m`): sections as a collection, rows inside a section as printed
			var buf bytes.Buffer
			cocagit.ShowChangeLogSummary(cp, &buf)
			secs := strings.Split(buf.String(), "=====================\n")
			sort.Strings(secs)
			ob["changelog summary sections"] = strings.Join(secs, "|")
		})
		if panicked {
			o.SetInconclusive("git summaries panicked @" + site + ": " + val)
			return
		}
		runs = append(runs, ob)
	}
	o.Count("executions", n)
	compare(o, "in-process repetition", runs)
	if c.Index < 64 {
		o.Sample = map[string]interface{}{"kind": "git history", "commits": len(hist), "repetitions": n, "reports": keysOf(runs[0])}
	}
}

// ---- cloc

func clocCase(c *run.Ctx, o *run.Outcome) {
	if c.CocaBin == "" {
		o.SetInconclusive("no coca binary")
		return
	}
	t := treegen.Generate(c.Rng.Fork(), treegen.Opts{MinSubs: 3, MaxSubs: 7, MaxFilesPerDir: 5, MaxRootFiles: 2, MaxLines: 30, MaxLangs: 4})
	rootDir := filepath.Join(c.Scratch(), "tree")
	if err := t.Materialize(rootDir); err != nil {
		o.SetInconclusive("cannot materialise tree")
		return
	}
	_, m := reps(c.Tier)
	o.Count("cloc_cases", 1)
	o.Shape = run.ShapeHash("cloc", t.ShapeKey())
	o.NonTrivial = len(t.Subs) >= 3
	o.Witness = t.Describe(false)
	var runs []observation
	for i := 0; i < m; i++ {
		wd := filepath.Join(c.Scratch(), fmt.Sprintf("cl%d", i))
		os.MkdirAll(wd, 0o755)
		ob := observation{}
		res := common.RunCLI(c.CocaBin, wd, nil, "cloc", rootDir, "--by-directory")
		if res.TimedOut || res.ExitCode != 0 {
			o.SetInconclusive("`coca cloc --by-directory` failed (C16's business)")
			return
		}
		csv, _ := ioutil.ReadFile(filepath.Join(wd, "coca_reporter", "cloc.csv"))
		ob["cloc.csv rows (as a set of header-labelled cells)"] = csvCanon(string(csv))
		res = common.RunCLI(c.CocaBin, wd, nil, "cloc", rootDir, "--top-file", "--top-size", "3")
		if res.TimedOut || res.ExitCode != 0 {
			o.SetInconclusive("`coca cloc --top-file` failed (C16's business)")
			return
		}
		ob["sort_cloc.json"] = topFileCanon(filepath.Join(wd, "coca_reporter", "sort_cloc.json"))
		runs = append(runs, ob)
	}
	o.Count("executions", m)
	compare(o, "fresh processes", runs)
	if c.Index < 64 {
		o.Sample = map[string]interface{}{"kind": "cloc tree", "sub_directories": len(t.Subs), "files": len(t.Files), "processes": m}
	}
}

func csvCanon(s string) string {
	lines := strings.Split(strings.TrimSpace(s), "\n")
	if len(lines) == 0 {
		return ""
	}
	head := strings.Split(lines[0], ",")
	var rows []string
	for _, l := range lines[1:] {
		cells := strings.Split(l, ",")
		var kv []string
		for i, cell := range cells {
			h := fmt.Sprint(i)
			if i < len(head) {
				h = strings.TrimSpace(head[i])
			}
			kv = append(kv, h+"="+strings.TrimSpace(cell))
		}
		sort.Strings(kv)
		rows = append(rows, strings.Join(kv, ";"))
	}
	sort.Strings(rows)
	return strings.Join(rows, "\n")
}

// topFileCanon: per language the order of files with untied code counts, plus the collection.
func topFileCanon(path string) string {
	b, err := ioutil.ReadFile(path)
	if err != nil {
		return "MISSING"
	}
	var langs []struct {
		Name  string
		Files []struct {
			Location string
			Code     int64
		}
	}
	if json.Unmarshal(b, &langs) != nil {
		return "UNREADABLE"
	}
	var parts []string
	for _, l := range langs {
		var keys, ids, all []string
		for _, f := range l.Files {
			keys = append(keys, fmt.Sprint(f.Code))
			ids = append(ids, f.Location)
			all = append(all, fmt.Sprintf("%s=%d", f.Location, f.Code))
		}
		sort.Strings(all)
		parts = append(parts, l.Name+": order ["+untied(keys, ids)+"] files ["+strings.Join(all, ",")+"]")
	}
	sort.Strings(parts)
	return strings.Join(parts, "\n")
}

// ---- Go front-end

func goCase(c *run.Ctx, o *run.Outcome) {
	f := gopygen.GenGo(c.Rng.Fork(), "sample.go", 0)
	// exported interface + unexported struct whose names differ only in case (Client / client): distinct sort keys
	for i := 0; i < c.Rng.Range(1, 4); i++ {
		f.Text += fmt.Sprintf("\ntype Remote%d interface {\n\tDo%d() error\n}\n\ntype remote%d struct {\n\tn%d int\n}\n", i, i, i, i)
	}
	n, _ := reps(c.Tier)
	o.Count("go_cases", 1)
	o.Shape = run.ShapeHash("go", len(f.Structs()), len(f.Ifaces()), len(f.Funcs()), len(f.Methods()))
	o.NonTrivial = len(f.Structs())+len(f.Ifaces()) >= 2
	o.Witness = map[string]interface{}{"text": f.Text}
	var runs []observation
	for i := 0; i < n; i++ {
		ob := observation{}
		panicked, val, site := run.Guard(func() {
			p := ast_go.NewCocagoParser()
			res := p.ProcessString(f.Text, "sample.go", nil)
			g := toGeneric(res)
			ob["go file model"] = canon(g, map[string]bool{"DataStructures": true, "Members": true, "Functions": true, "FunctionNodes": true}, "", 1)
			var names []string
			for _, ds := range res.DataStructures {
				names = append(names, ds.NodeName)
			}
			ob["data structures order by name"] = strings.Join(names, " < ")
		})
		if panicked {
			o.SetInconclusive("go front-end panicked @" + site + ": " + val + " (C20's business)")
			return
		}
		runs = append(runs, ob)
	}
	o.Count("executions", n)
	compare(o, "in-process repetition", runs)
	if c.Index < 64 {
		o.Sample = map[string]interface{}{"kind": "go file", "structs": len(f.Structs()), "interfaces": len(f.Ifaces()), "repetitions": n}
	}
}
