// Package c19 drives coca's build-dependency extraction (Maven, Gradle) and the unused-dependency report and
// checks both against what the generator declared (oracle/deps.go).
package c19

import (
	"fmt"
	"io/ioutil"
	"os"
	"path/filepath"
	"strings"

	"github.com/antlr/antlr4/runtime/Go/antlr/v4"
	groovy "github.com/modernizing/coca/languages/groovy"
	"github.com/modernizing/coca/pkg/application/analysis/javaapp"
	"github.com/modernizing/coca/pkg/application/deps"
	"github.com/modernizing/coca/pkg/domain/core_domain"

	"verifharness/adapter/common"
	"verifharness/gen/buildgen"
	"verifharness/oracle"
	"verifharness/run"
)

// even case index = pom.xml, odd = build.gradle: quick 300 + 300, thorough 6000 + 6000
func cases(tier string) int {
	if tier == "thorough" {
		return 12000
	}
	return 600
}

func cliEvery(tier string) int {
	if tier == "thorough" {
		return 60 // 200 pom + 200 gradle CLI cases
	}
	return 20 // 30 pom + 30 gradle CLI cases
}

var Check = &run.Check{
	ID:    "C19",
	Level: "exploration",
	Rule: "case = generated project: pom.xml (even index; 0-15 <dependency> in the project-level <dependencies>, children groupId/artifactId/version/scope/type/optional/classifier/exclusions in any order, " +
		"comments, padded values, properties, dependencyManagement / plugin / profile dependencies, parent, reporting/build javadoc <links><link>, properties and ciManagement configuration with elements named like HTML void elements (link, param, base, meta, input, ...), licenses, scm, entity references, in any order before and after) or build.gradle (odd index; one dependencies closure with 0-15 statements in " +
		"single-quoted, double-quoted, ${}-interpolated-version, parenthesised and parenthesised-with-closure string notation under 14 configurations, plus project(), fileTree() and map notation in command and " +
		"parenthesised form; 4-space/tab/2-space indentation, no indentation at all, or closures closed in column one; buildscript/plugins/apply/ext/repositories/configurations/android/test/task/jar blocks around; every script first passes coca's Groovy parser) + 0-6 Java files (class/interface, few " +
		"enum/annotation types; main and test roots) importing a chosen subset of the declared groups (single-type, on-demand, static, group inside a longer package) plus near-miss and unrelated imports; file heads with one declaration per line, imports sharing a line, an import on the package line, or package and imports on one line; import-looking lines inside comments; " +
		"observed: deps.AnalysisMaven / deps.AnalysisGradleString, deps.DepAnalysisApp.AnalysisPath (nodes built as the dep main builds them), and for every Nth case the table printed by `coca-dep deps -p .`; " +
		"non-trivial = >= 3 declared string-notation entries, at least one imported and one not imported, and >= 2 notations (gradle) / an entry with optional children (pom); distinct = hash of " +
		"(system, section layout, per-entry notation and child order, import mode, kinds and import counts of the Java files)",
	Assumptions: []string{
		"the dependencies block of a pom is the <dependencies> child of <project>; dependencyManagement, plugin and profile dependencies and buildscript classpath entries are 'other sections': they must not disturb the block, whether they may be listed is not decided",
		"a <dependency> without <scope> may be reported with scope \"\" or \"compile\"",
		"groupId/artifactId/scope contain no ${property}; interpolation appears only in versions, which are not asserted",
		"a map-notation entry may be skipped (statement) or extracted correctly at its position; nothing else",
		"one dependencies block per build file; one coordinate per statement",
		"directories above the analysed directory are not part of the project, whatever they are called; a byte-identical copy of the pom under target/classes/META-INF/maven/ may be ignored or reported as a second pom (both readings accepted, nothing else)",
		"the dep main is given the project directory in one of nine spellings (absolute, with trailing slash, relative, ./rel, ., .., sub/.., ../name); all name the same directory",
		"a project has one build file, or (2 of 16 cases) a pom.xml and a build.gradle side by side: the declared dependencies are those of both files; inside one file the report must keep declaration order, how the two files interleave is not decided (entries are attributed to their file by artifact id, which the generator keeps disjoint)",
		"'occurs in an import' is substring containment in the qualified name written after import [static]",
	},
	Cases: cases,
	Floor: func(tier string) int {
		if tier == "thorough" {
			return 2500
		}
		return 120
	},
	Run: runCase,
}

// ---------------------------------------------------------------- parser-acceptance filter (DESIGN §2)

type countingListener struct {
	*antlr.DefaultErrorListener
	n     int
	first string
}

func (c *countingListener) SyntaxError(_ antlr.Recognizer, _ interface{}, line, col int, msg string, _ antlr.RecognitionException) {
	if c.n == 0 {
		c.first = fmt.Sprintf("%d:%d %s", line, col, msg)
	}
	c.n++
}

// groovyAccepts parses text once with coca's own generated Groovy parser (default LL prediction, as coca uses
// it; SLL was tried as a cheaper first stage, but this grammar needs full context on 95 % of build scripts)
// and counts syntax errors of lexer and parser.
func groovyAccepts(text string) (ok bool, first string) {
	l := &countingListener{DefaultErrorListener: antlr.NewDefaultErrorListener()}
	panicked, val, _ := run.Guard(func() {
		lx := groovy.NewGroovyLexer(antlr.NewInputStream(text))
		lx.RemoveErrorListeners()
		lx.AddErrorListener(l)
		p := groovy.NewGroovyParser(antlr.NewCommonTokenStream(lx, 0))
		p.RemoveErrorListeners()
		p.AddErrorListener(l)
		p.CompilationUnit()
	})
	if panicked {
		return false, "parser panic: " + val
	}
	return l.n == 0, l.first
}

// ------------------------------------------------------------------------------------------ the case

func toDeps(in []core_domain.CodeDependency) []oracle.Dep {
	out := make([]oracle.Dep, 0, len(in))
	for _, d := range in {
		out = append(out, oracle.Dep{Group: d.GroupId, Artifact: d.ArtifactId, Scope: d.Scope})
	}
	return out
}

func writeProject(dir string, p *buildgen.Project) (javaFiles []string, err error) {
	for _, b := range p.Builds() {
		if err = ioutil.WriteFile(filepath.Join(dir, b.FileName), []byte(b.Text), 0o644); err != nil {
			return
		}
	}
	if p.OutputCopy != "" {
		cp := filepath.Join(dir, filepath.FromSlash(p.OutputCopy))
		if err = os.MkdirAll(filepath.Dir(cp), 0o755); err != nil {
			return
		}
		if err = ioutil.WriteFile(cp, []byte(p.Build.Text), 0o644); err != nil {
			return
		}
	}
	for _, f := range p.Java {
		path := filepath.Join(dir, filepath.FromSlash(f.Path))
		if err = os.MkdirAll(filepath.Dir(path), 0o755); err != nil {
			return
		}
		if err = ioutil.WriteFile(path, []byte(f.Text), 0o644); err != nil {
			return
		}
		javaFiles = append(javaFiles, path) // p.Java is sorted by path: the order filepath.Walk yields
	}
	return
}

func head(s string) string {
	s = strings.TrimSpace(s)
	if len(s) > 400 {
		s = s[:400]
	}
	return strings.ReplaceAll(s, "\n", " / ")
}

// parseTable reads the rows of the table the dep main prints after the line "unused".
func parseTable(stdout string) (rows []oracle.Dep, ok bool) {
	lines := strings.Split(stdout, "\n")
	i := 0
	for ; i < len(lines); i++ {
		if strings.TrimSpace(lines[i]) == "unused" {
			break
		}
	}
	if i == len(lines) {
		return nil, false
	}
	headerSeen := false
	for _, l := range lines[i+1:] {
		l = strings.TrimRight(l, "\r ")
		if !strings.HasPrefix(l, "|") {
			continue
		}
		cells := strings.Split(strings.Trim(l, "|"), "|")
		if len(cells) != 3 {
			return nil, false
		}
		for k := range cells {
			cells[k] = strings.TrimSpace(cells[k])
		}
		if !headerSeen {
			if strings.ToUpper(cells[0]) != "GROUPID" {
				return nil, false
			}
			headerSeen = true
			continue
		}
		if strings.Trim(cells[0], "-") == "" && strings.HasPrefix(cells[0], "-") {
			continue // separator |-----|-----|
		}
		rows = append(rows, oracle.Dep{Group: cells[0], Artifact: cells[1], Scope: cells[2]})
	}
	return rows, headerSeen
}

func count(o *run.Outcome, prefix string, st oracle.DepStats) {
	o.Count(prefix+"_entries_expected", st.Expected)
	o.Count(prefix+"_entries_matched", st.Matched)
	o.Count(prefix+"_map_entries_extracted", st.OptionalMatched)
	o.Count(prefix+"_other_section_entries_set_aside", st.SetAside)
}

// isDual: two of every sixteen indices (one pom-first, one gradle-first) are dual-build projects; with the CLI
// stride being a multiple of 20, indices 20, 21, 100, 101, ... put dual projects through the dep main as well.
func isDual(index int) bool { return index%16 == 4 || index%16 == 5 }

func runCase(c *run.Ctx, o *run.Outcome) {
	system := "maven"
	if c.Index%2 == 1 {
		system = "gradle"
	}
	dual := isDual(c.Index)
	p := buildgen.Generate(c.Rng.Fork(), system, dual)
	o.Shape = run.ShapeHash(p.ShapeKey())
	o.Count(system+"_cases", 1)
	if dual {
		o.Count("dual_build_cases", 1)
	}

	expUnused := oracle.ExpectedUnused(p)
	expExtracted := map[string][]oracle.Dep{}
	nDeclared := 0
	styles := map[string]bool{}
	optionalChildren := false
	for _, b := range p.Builds() {
		expExtracted[b.FileName] = oracle.ExpectedExtracted(b)
		nDeclared += len(expExtracted[b.FileName])
		for _, e := range b.Entries {
			styles[e.Style] = true
			o.Count("entries_"+b.System+"_"+e.Style, 1)
			o.Seen("notations", b.System+"/"+e.Style)
			if e.Kind != buildgen.KindString {
				o.Count("other_notation_entries_planted", 1)
			}
			if len(e.Children) > 3 {
				optionalChildren = true
			}
		}
		depPos := -1
		for i, l := range b.Layout {
			o.Seen("sections", b.System+"/"+l)
			if l == "dependencies" {
				depPos = i
			}
		}
		// sections with elements named like HTML void elements, by position relative to <dependencies>
		for _, v := range b.VoidNamed {
			o.Count("pom_void_named_sections_planted", 1)
			for i, l := range b.Layout {
				if l == v && depPos >= 0 && len(b.Entries) > 0 {
					if i < depPos {
						o.Count("pom_void_named_section_before_nonempty_dependencies", 1)
					} else {
						o.Count("pom_void_named_section_after_nonempty_dependencies", 1)
					}
				}
			}
		}
		o.Count("other_section_entries_planted", len(b.Elsewhere))
		if b.Flat {
			o.Count("gradle_scripts_without_indentation", 1)
		}
		if b.ClosureBraceCol1 > 0 {
			o.Count("gradle_scripts_with_closure_closed_in_column_one", 1)
			o.Count("gradle_closures_closed_in_column_one", b.ClosureBraceCol1)
		}
	}
	o.Count("declared_string_entries", nDeclared)
	o.Count("expected_unused_entries", len(expUnused))
	if dual {
		o.Count("dual_declared_string_entries", nDeclared)
		o.Count("dual_expected_unused_entries", len(expUnused))
		if len(expUnused) > 0 && len(expUnused) < nDeclared {
			o.Count("dual_cases_with_imported_and_unimported_entries", 1)
		}
	}
	o.Count("java_files", len(p.Java))
	firstOnLine := map[string]bool{} // imports that start some line somewhere
	for _, f := range p.Java {
		o.Count("java_files_"+f.Kind, 1)
		o.Count("imports_written", len(f.Imports))
		o.Count("java_head_layout_"+f.Layout, 1)
		o.Count("imports_not_first_on_their_line", len(f.NotFirstOnLine))
		o.Count("import_looking_lines_in_comments", len(f.CommentedImports))
		nf := map[string]bool{}
		for _, im := range f.NotFirstOnLine {
			nf[im] = true
		}
		for _, im := range f.Imports {
			if !nf[im] {
				firstOnLine[im] = true
			}
		}
	}
	// ground-truth dimensions of the Java head layout: declared entries whose group occurs only in imports that follow
	// another declaration on their line, and not-imported entries whose group occurs in a comment
	importedOnlyMidLine, unusedButInComment := 0, 0
	for _, b := range p.Builds() {
		for _, e := range b.Entries {
			if e.Kind != buildgen.KindString {
				continue
			}
			used, usedFirst, inComment := false, false, false
			for _, f := range p.Java {
				for _, im := range f.Imports {
					if strings.Contains(im, e.Group) {
						used = true
						if firstOnLine[im] {
							usedFirst = true
						}
					}
				}
				for _, ci := range f.CommentedImports {
					if strings.Contains(ci, e.Group) {
						inComment = true
					}
				}
			}
			if used && !usedFirst {
				importedOnlyMidLine++
			}
			if !used && inComment {
				unusedButInComment++
			}
		}
	}
	o.Count("entries_imported_only_by_imports_not_first_on_their_line", importedOnlyMidLine)
	o.Count("entries_not_imported_but_named_in_a_comment", unusedButInComment)
	o.Seen("import_modes", p.Mode)
	o.NonTrivial = nDeclared >= 3 && len(expUnused) >= 1 && len(expUnused) < nDeclared &&
		((system == "gradle" && len(styles) >= 2) || (system == "maven" && optionalChildren))

	witness := map[string]interface{}{"project": p, "expected_extracted": expExtracted, "expected_unused": expUnused}
	o.Witness = witness

	for _, b := range p.Builds() {
		if b.System != "gradle" {
			continue
		}
		o.Count("generator_rejects", 0)
		o.Count("groovy_parser_accepted", 1)
		if ok, first := groovyAccepts(b.Text); !ok {
			o.Count("groovy_parser_accepted", -1)
			o.Count("generator_rejects", 1)
			o.SetInconclusive("generated build.gradle rejected by coca's Groovy parser: " + first)
			return
		}
	}

	// the project directory lies below the scratch directory, in a share of the cases below directories named
	// build / target / out / tmp / dist: directories above the analysed one are not part of the project
	scratch := c.Scratch()
	dir := filepath.Join(scratch, filepath.FromSlash(p.Location))
	if above := filepath.ToSlash(filepath.Dir(p.Location)); above != "." {
		o.Count("project_below_"+strings.ReplaceAll(above, "/", "_"), 1)
		o.Count("projects_below_named_directories", 1)
	}
	if p.OutputCopy != "" {
		o.Count("projects_with_pom_copy_in_target", 1)
	}
	err := os.MkdirAll(dir, 0o755)
	var javaFiles []string
	if err == nil {
		javaFiles, err = writeProject(dir, p)
	}
	if err != nil {
		o.SetInconclusive("cannot write the project: " + err.Error())
		return
	}

	// 1. extraction, per build file
	obsExtractedAll := map[string][]oracle.Dep{}
	witness["observed_extracted"] = obsExtractedAll
	for _, b := range p.Builds() {
		b := b
		var extracted []core_domain.CodeDependency
		var site string
		if b.System == "maven" {
			site = "AnalysisMaven"
			buildPath := filepath.Join(dir, b.FileName)
			panicked, val, frame := run.Guard(func() { extracted = deps.AnalysisMaven(buildPath) })
			if panicked {
				o.Violate("panic@"+frame, "deps.AnalysisMaven panicked: %s", val)
				return
			}
		} else {
			site = "AnalysisGradleString"
			panicked, val, frame := run.Guard(func() { extracted = deps.AnalysisGradleString(b.Text) })
			if panicked {
				o.Violate("panic@"+frame, "deps.AnalysisGradleString panicked: %s", val)
				return
			}
		}
		obsExtracted := toDeps(extracted)
		obsExtractedAll[b.FileName] = obsExtracted
		o.Count("extracted_entries_observed", len(obsExtracted))
		mm, st := oracle.CheckExtracted(b, obsExtracted)
		count(o, "extracted", st)
		for _, m := range mm {
			o.Violate(m.Sig, "%s: %s", site, m.Msg)
		}
	}
	var mm []oracle.DepMismatch
	var st oracle.DepStats

	// 2. unused report, in-process: nodes are built the way analysis/dep builds them
	var unused []core_domain.CodeDependency
	panicked, val, frame := run.Guard(func() {
		identApp := javaapp.NewJavaIdentifierApp()
		ident := identApp.AnalysisFiles(javaFiles)
		fullApp := javaapp.NewJavaFullApp()
		nodes := fullApp.AnalysisFiles(ident, javaFiles)
		unused = deps.NewDepApp().AnalysisPath(dir, nodes)
	})
	if panicked {
		o.Violate("panic@"+frame, "DepAnalysisApp.AnalysisPath (or the Java analysis feeding it) panicked: %s", val)
		return
	}
	obsUnused := toDeps(unused)
	witness["observed_unused"] = obsUnused
	o.Count("unused_entries_observed", len(obsUnused))
	mm, st = oracle.CheckUnused(p, obsUnused)
	count(o, "unused", st)
	if st.CopyReadTwice {
		o.Count("pom_copy_in_target_reported_as_second_pom", 1)
	}
	for _, m := range mm {
		o.Violate(m.Sig, "AnalysisPath: %s", m.Msg)
	}

	// 3. the dep main, every Nth case
	depBin := filepath.Join(c.BinDir, "coca-dep")
	if c.Index%cliEvery(c.Tier) < 2 {
		// N is even: remainder 0 is a pom case (even index), remainder 1 a gradle case (odd index)
		o.Count("cli_cases", 1)
		if _, err := os.Stat(depBin); err != nil {
			o.SetInconclusive("dep main not built: " + depBin)
			return
		}
		// the analysed directory is named in one of the legal ways (absolute, relative, ".", "..", trailing slash, ...)
		cwd, arg, kind := common.SpellRoot(c.Index/cliEvery(c.Tier), dir, scratch)
		o.Count("cli_root_spelled_"+kind, 1)
		o.Count("cli_entries_imported_only_by_imports_not_first_on_their_line", importedOnlyMidLine)
		o.Count("cli_entries_not_imported_but_named_in_a_comment", unusedButInComment)
		witness["cli_cwd"], witness["cli_arg"], witness["cli_root_kind"] = cwd, arg, kind
		res := common.RunCLI(depBin, cwd, nil, "deps", "-p", arg)
		witness["cli_stdout"] = res.Stdout
		witness["cli_stderr"] = head(res.Stderr)
		switch {
		case res.TimedOut:
			o.SetInconclusive("cli watchdog")
			return
		case strings.Contains(res.Stderr+res.Stdout, "unknown command \"deps\""):
			o.Violate("cli/deps-sub-command-missing", "`coca-dep deps -p .`: the dep main has no deps sub-command: %s", head(res.Stderr+res.Stdout))
			return
		case res.ExitCode != 0 || strings.Contains(res.Stderr, "panic:") || strings.Contains(res.Stderr, "fatal error"):
			o.Violate("cli-crash/"+kind, "`coca-dep deps -p %s` (cwd %s) exit %d: %s", arg, cwd, res.ExitCode, head(res.Stderr))
			return
		}
		rows, ok := parseTable(res.Stdout)
		if !ok {
			o.Violate("cli-no-table/"+kind, "`coca-dep deps -p %s` (cwd %s) printed no `unused` table: %s", arg, cwd, head(res.Stdout))
			return
		}
		witness["cli_rows"] = rows
		o.Count("cli_rows_observed", len(rows))
		mm, st = oracle.CheckUnused(p, rows)
		count(o, "cli", st)
		for _, m := range mm {
			sig := "cli/" + kind + "/" + m.Sig
			if m.Shared {
				sig = m.Sig
			}
			o.Violate(sig, "dep main table (`deps -p %s`, root spelled %s): %s", arg, kind, m.Msg)
		}
	}

	if c.Index < 64 {
		sample := map[string]interface{}{"build_file": p.Build.FileName, "text": p.Build.Text, "java": p.Java, "observed_extracted": obsExtractedAll,
			"expected_unused": expUnused, "observed_unused": obsUnused}
		if p.Second != nil {
			sample["second_build_file"], sample["second_text"] = p.Second.FileName, p.Second.Text
		}
		o.Sample = sample
	}
}
