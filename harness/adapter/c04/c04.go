// Package c04 drives coca's reverse-call-graph generation and checks map and graph against the inverse
// of the project-internal call relation of the model.
package c04

import (
	"encoding/json"
	"io/ioutil"
	"path/filepath"
	"strings"
	"time"

	"github.com/modernizing/coca/pkg/application/call"
	"github.com/modernizing/coca/pkg/application/rcall"

	"verifharness/adapter/common"
	"verifharness/gen/modelgen"
	"verifharness/obs"
	"verifharness/oracle"
	"verifharness/run"
)

func cases(tier string) int {
	if tier == "thorough" {
		return 300000
	}
	return 20000
}

func cliEvery(tier string) int {
	if tier == "thorough" {
		return 400
	}
	return 400
}

var Check = &run.Check{
	ID:    "C04",
	Level: "exploration",
	Rule: "case = synthetic code model (as C03; emphasis on fan-in with a caller invoking the target 1-3 times, callers with own callers, chains, cycles through the target, " +
		"mutual recursion, external callees; classes recorded as Class / Interface / unrecorded; names with quotes, non-ASCII letters and identifier-ignorable format characters; an uncalled method differing only in letter case from a called one) + target (hub/any/absent/uncalled case twin); executed through rcall.RCallGraph.Analysis (map via writeCallback + DOT) in-process, " +
		"`coca rcall` (rcall.dot, rcallmap.json) and `coca call -l` for every Nth case; non-trivial = the target has >= 2 call sites from project methods and some direct caller has callers itself; " +
		"distinct = hash of (mode, adjacency structure, target index)",
	Assumptions: []string{
		"overloads share one full name: the reverse relation is decided by name (callers of a name = all call sites of that name; `call -l` forward part follows the last declaration, as the method table does)",
		"names contain no backslash",
	},
	Cases: cases,
	Floor: func(tier string) int {
		if tier == "thorough" {
			return 5000
		}
		return 200
	},
	Run:                 runCase,
	CaseWatchdog:        30 * time.Second, // a case takes milliseconds
	WatchdogIsViolation: true,             // termination clause of the statement
}

func runCase(c *run.Ctx, o *run.Outcome) {
	r := c.Rng
	opts := modelgen.Opts{MaxClasses: 8, MaxMethods: 40, MaxOut: 6, Quotes: true, Overloads: true, DefaultPkg: true, Kinds: true, CaseTwins: true, OddRunes: true, Ctors: true, PlatformLikePkgs: true}
	if r.Chance(1, 2) {
		opts = modelgen.Opts{MaxClasses: 4, MaxMethods: 10, MaxOut: 3, Quotes: true, Overloads: true, DefaultPkg: true, Kinds: true, CaseTwins: true, OddRunes: true, Ctors: true, PlatformLikePkgs: true}
	}
	m := modelgen.Generate(r.Fork(), opts)
	deps := common.ToCoca(m)
	target := modelgen.PickRoot(r, m)
	want := oracle.RCallMap(m)
	o.Shape = run.ShapeHash(m.ShapeKey(), target)
	callersHaveCallers := false
	for _, cl := range want[target] {
		if cl != target && len(want[cl]) > 0 {
			callersHaveCallers = true
		}
	}
	o.NonTrivial = len(want[target]) >= 2 && callersHaveCallers
	multi := map[string]int{}
	for _, cl := range want[target] {
		multi[cl]++
	}
	for _, n := range multi {
		if n >= 2 {
			o.Count("targets_called_repeatedly_by_one_caller", 1)
			break
		}
	}
	if _, ok := m.Declared()[target]; !ok {
		o.Count("targets_absent", 1)
	}
	if len(m.CaseTwins) > 0 && target == m.CaseTwins[0] {
		o.Count("targets_uncalled_case_twin_of_a_called_method", 1)
	}
	for _, me := range m.Methods() {
		if strings.ContainsAny(me.Name, "\u200c\u200d\u00ad") {
			o.Count("models_with_format_runes_in_names", 1)
			break
		}
	}
	o.Count("methods", len(m.Methods()))
	o.Seen("graph_modes", m.Shape)
	witness := map[string]interface{}{"model": m.Describe(), "target": target, "shape": m.Shape}
	o.Witness = witness
	useCLI := c.CocaBin != "" && c.Index%cliEvery(c.Tier) == 0

	var dot string
	var observed map[string][]string
	if useCLI {
		o.Count("cli_cases", 1)
		dir := c.Scratch()
		common.WriteJSON(filepath.Join(dir, "deps.json"), deps)
		if c.Index/cliEvery(c.Tier)%2 == 1 {
			// an earlier run of the same command in the same working directory, on a bigger model: the reports of
			// the run that is judged must not contain anything of it
			big := modelgen.Generate(r.Fork(), modelgen.Opts{MaxClasses: 8, MaxMethods: 60, MaxOut: 8, Quotes: true})
			common.WriteJSON(filepath.Join(dir, "earlier.json"), common.ToCoca(big))
			common.RunCLI(c.CocaBin, dir, nil, "rcall", "-c", modelgen.PickRoot(r, big), "-d", "earlier.json")
			o.Count("cli_cases_after_an_earlier_run_in_the_same_directory", 1)
		}
		res := common.RunCLI(c.CocaBin, dir, nil, "rcall", "-c", target, "-d", "deps.json")
		if res.TimedOut {
			o.SetInconclusive("cli watchdog")
			return
		}
		if res.ExitCode != 0 || strings.Contains(res.Stderr, "panic:") || strings.Contains(res.Stderr, "fatal error") {
			o.Violate("cli-crash", "`coca rcall` exit %d: %s", res.ExitCode, head(res.Stderr))
			return
		}
		b, err := ioutil.ReadFile(filepath.Join(dir, "coca_reporter", "rcall.dot"))
		if err != nil {
			o.Violate("cli-no-output", "`coca rcall` wrote no rcall.dot")
			return
		}
		dot = string(b)
		mb, err := ioutil.ReadFile(filepath.Join(dir, "coca_reporter", "rcallmap.json"))
		if err != nil || json.Unmarshal(mb, &observed) != nil {
			o.Violate("cli-no-map", "`coca rcall` wrote no readable rcallmap.json (%d bytes): %v", len(mb), json.Unmarshal(mb, &observed))
			return
		}
		// `coca call -l`: the reverse edges are appended to the forward graph
		res2 := common.RunCLI(c.CocaBin, dir, nil, "call", "-c", target, "-d", "deps.json", "-l")
		if res2.ExitCode != 0 || strings.Contains(res2.Stderr, "panic:") {
			o.Violate("cli-crash-call-l", "`coca call -l` exit %d: %s", res2.ExitCode, head(res2.Stderr))
			return
		}
		cb, _ := ioutil.ReadFile(filepath.Join(dir, "coca_reporter", "call.dot"))
		checkLookup(o, m, target, string(cb))
	} else {
		panicked, val, site := run.Guard(func() {
			dot = rcall.NewRCallGraph().Analysis(target, deps, func(mm map[string][]string) {
				observed = map[string][]string{}
				for k, v := range mm {
					observed[k] = append([]string(nil), v...)
				}
			})
		})
		if panicked {
			o.Violate("panic@"+site, "RCallGraph.Analysis panicked: %s", val)
			return
		}
		if c.Index%4 == 1 {
			var cdot string
			panicked, val, site := run.Guard(func() { cdot = call.NewCallGraph().Analysis(target, deps, true) })
			if panicked {
				o.Violate("panic@"+site, "CallGraph.Analysis(lookup) panicked: %s", val)
				return
			}
			checkLookup(o, m, target, cdot)
		}
	}
	witness["dot"] = dot
	witness["map"] = observed
	for _, mm := range oracle.CheckRCallMap(m, observed) {
		o.Violate(mm.Sig, "%s", mm.Msg)
	}
	o.Count("map_keys_observed", len(observed))
	o.Count("map_keys_expected", len(want))
	edges, err := obs.ParseEdgeListDot(dot)
	if err != nil {
		o.Violate("dot-malformed", "reverse call graph is not well-formed DOT: %v", err)
		return
	}
	if err := common.GraphvizParses(dot); err != nil {
		o.Violate("dot-malformed-gographviz", "reverse call graph rejected by the DOT parser: %v", err)
		return
	}
	o.Count("edges_observed", len(edges))
	o.Count("direct_callers_expected", len(multi))
	for _, mm := range oracle.CheckRCallEdges(m, target, edges) {
		o.Violate(mm.Sig, "%s", mm.Msg)
	}
	if c.Index < 64 {
		o.Sample = map[string]interface{}{"model": m.Describe(), "target": target, "edges_observed": edges, "map_keys": len(observed)}
	}
}

// checkLookup: with -l the forward graph additionally contains reverse edges; every direct caller of the
// target must appear and every edge must be a forward-reachable call or a reverse-chain edge.
func checkLookup(o *run.Outcome, m *modelgen.Model, target, dot string) {
	edges, err := obs.ParseEdgeListDot(dot)
	if err != nil {
		o.Violate("lookup-dot-malformed", "`call -l` graph is not well-formed DOT: %v", err)
		return
	}
	o.Count("lookup_graphs_checked", 1)
	cr := oracle.NewCallRel(m, nil)
	fwd := cr.ReachableEdges(target)
	rmap := oracle.RCallMap(m)
	rev := oracle.RPermitted(rmap, target)
	got := map[obs.Edge]bool{}
	for _, e := range edges {
		got[e] = true
		if !fwd[e] && !rev[e] {
			o.Violate("lookup-edge-unjustified", "`call -l`: edge %q -> %q is neither a reachable call nor on a caller chain of %q", e.From, e.To, target)
		}
	}
	for _, cl := range rmap[target] {
		if cl != target && !got[obs.Edge{From: cl, To: target}] {
			o.Violate("lookup-direct-caller-missing", "`call -l`: direct caller %q of %q has no edge", cl, target)
		}
	}
}

func head(s string) string {
	s = strings.TrimSpace(s)
	if len(s) > 300 {
		s = s[:300]
	}
	return strings.ReplaceAll(s, "\n", " / ")
}
