// Package c18 checks reference counts (`coca count`), the evaluation summary (`coca evaluate`) and the
// concept word counts (`coca concept`) against workloads whose numbers are known by construction.
//
// Three sub-checks share the case list (index mod 15): 0-9 call models, 10-11 generated Java projects,
// 12-14 method-name lists.
package c18

import (
	"encoding/json"
	"io/ioutil"
	"os"
	"path/filepath"
	"sort"
	"strconv"
	"strings"

	"github.com/modernizing/coca/pkg/application/analysis/javaapp"
	"github.com/modernizing/coca/pkg/application/concept"
	"github.com/modernizing/coca/pkg/application/count"
	"github.com/modernizing/coca/pkg/application/evaluate"
	"github.com/modernizing/coca/pkg/application/evaluate/evaluator"
	"github.com/modernizing/coca/pkg/domain/core_domain"
	"github.com/modernizing/coca/pkg/infrastructure/string_helper"

	"verifharness/adapter/common"
	"verifharness/gen/evalgen"
	"verifharness/gen/modelgen"
	"verifharness/oracle"
	"verifharness/run"
)

func cases(tier string) int {
	if tier == "thorough" {
		return 45000 // 30 000 models + 6 000 projects + 9 000 name lists
	}
	return 4500 // 3 000 models + 600 projects + 900 name lists
}

// every Nth case of a kind also goes through the real binary
func cliEvery(tier, kind string) int {
	switch kind {
	case "model":
		if tier == "thorough" {
			return 40
		}
		return 10
	case "project":
		if tier == "thorough" {
			return 30
		}
		return 13
	default:
		if tier == "thorough" {
			return 45
		}
		return 15
	}
}

var Check = &run.Check{
	ID:    "C18",
	Level: "exploration",
	Rule: "case index mod 15 selects the sub-check. 0-9: synthetic call model (modelgen: random/dag/tree/chain/cycle/fan-in/mutual/dense graphs with repeated calls, self calls, calls without receiver type, " +
		"calls to external and to undeclared methods of project classes, object creations, overloaded names (one full name declared twice, called), constructor functions that make calls, classes in the default package (empty package name); in every second model call records carry real-looking positions: one caller calls the SAME callee 2-3 times on ONE line at different columns, adjacent or with another call in between) every third model gets CALLED case twins (method getUrl/getURL in one class, or class IoUtil/IOUtil with a method of the same name) with different counts) -> count.BuildCallMap, and string_helper.SortWord over it five times in one process (same rows, same order), every Nth through `coca count -d deps.json` twice (+ `-t k`). " +
		"10-11: generated Java project (1-6 files, one class each: *Util/*Utils classes with static methods only, also named *ServiceUtil(s)/ServiceUtils/WebServiceUtil, *UtilImpl/*UtilsV2/*UtilsImpl/*UtilHelper and Util*, *Service classes, ordinary and abstract classes; about one class in seven has no package line; about one class in three declares an overload (same name, one more parameter) that the planted calls also use; about one class in three has a constructor whose body starts with such calls; first parameters of methods and constructors may carry @Nullable/@CheckForNull (says nothing about the method: negatives); methods with every subset of " +
		"{public|private|protected, static, final, synchronized} or {public|protected, abstract} in random order, annotations before or between the keywords; bodies returning null as the only/first/middle/last return " +
		"statement, nested in for/while/try/switch/else; @Nullable/@CheckForNull as only/first/middle/last annotation or after a keyword; both annotations on one method; annotation plus return null; null returned on two paths; the only null being the else / then / innermost else branch of a returned conditional expression (`return ok ? v : null;`), with a null-free conditional return as control; decoys: null outside return statements, @Nonnull, boolean `return p == null`; " +
		"bodies start with unqualified calls of same-class methods, one per line or the same callee 2-3 times on one line) " +
		"-> JavaIdentifierApp + JavaFullApp -> evaluate.Analyser.Analysis, every Nth through `coca analysis -p DIR` + `coca evaluate` (coca_reporter/evaluate.json); the analysed model of every project also goes through count.BuildCallMap / `coca count` and is compared with its own recorded call entries. " +
		"12-14: classes whose method names are plain camel case over 40 ordinary words, 6 ordinary words that begin with get/set (setup, setback, settle, getaway, settings, getter; alone, first or later segment), 12 English function words and digit groups of 1-25 digits (also beyond the int64 range) -> concept.ConceptAnalyser.Analysis, every Nth through `coca concept -d deps.json`. " +
		"non-trivial = model: some declared method has >= 2 call sites and some call goes to an undeclared name; project: >= 2 classes, a static method with >= 2 modifiers and a nullable method; " +
		"names: >= 3 words of which one is a stop word; distinct = hash of (kind, structure without names)",
	Assumptions: []string{
		"overloads share one full name (package.Class.method) and the count map is keyed by that name, so for a name declared more than once the expected count is the number of recorded call sites naming it - every call site resolves to exactly one method, hence the sum over the declarations cannot exceed it; which overload a site means is not decided. Two nullable overloads of one name are not generated. Class simple names are unique inside a project",
		"generated classes have no inner types, and there are no interfaces or enums: whether those count as classes is not settled by the statement. About one class in three has ONE constructor (it makes calls; its first parameter may be annotated): whether a constructor is a method is not settled either, so MethodCount may be anything from the number of methods to methods + constructors; a constructor is never nullable and never a counted callee (uses of constructor functions in synthetic models are turned into object creations)",
		"a utility class is generated only in the unambiguous shape (the name has the word Util/Utils as a camel-case segment - last, first or in the middle as in DateUtilImpl - and the class has nothing but static methods); every other class has an instance method and no 'util' in its name",
		"return expressions never contain an identifier or string with the letters 'null'; a returned conditional expression has the null literal only as a whole branch and never in its condition (guards such as `p == null ? \"\" : p` are not generated: whether coca should list them is not what the statement settles)",
		"for generated projects the expected reference counts are the call entries the full pass RECORDED (which receiver a call resolves to is C02's subject); the planted same-line calls are only counted to show that such entries occur",
		"a class named *ServiceUtil(s) with nothing but static methods is a utility class under any reading; a *Service class without 'util' in its name is not",
		"full names of default-package members are compared without the leading dot coca writes (.Greeter.greet == Greeter.greet): the statement only needs caller side and declaring side to agree",
		"the key format of the nullable list and of the count map (package.Class.method) is read from the code, the statement does not fix it",
		"word lists: only words that are in neither of coca's stop-word lists count as words, only English function words (the, of, and, for, with, to, in, by, from, or, on, at) are planted as stop words; only the SUM of the reported counts is asserted",
		"`coca count -t k` is run with k in 1..rows+2; nothing is asserted about which or how many rows it keeps beyond: it does not crash, every row is a correct pair, both runs print the same",
		"every generated Java file is accepted by coca's own Java parser (rejects are counted as inconclusive)",
	},
	Cases: cases,
	Floor: func(tier string) int {
		if tier == "thorough" {
			return 4000
		}
		return 150
	},
	Run: runCase,
}

func runCase(c *run.Ctx, o *run.Outcome) {
	switch k := c.Index % 15; {
	case k < 10:
		runModel(c, o, c.Index/15*10+k)
	case k < 12:
		runProject(c, o, c.Index/15*2+(k-10))
	default:
		runConcept(c, o, c.Index/15*3+(k-12))
	}
}

func head(s string) string {
	s = strings.TrimSpace(s)
	if len(s) > 300 {
		s = s[:300]
	}
	return strings.ReplaceAll(s, "\n", " / ")
}

// stripProfile drops the "profile: cpu profiling ..." lines coca's main writes to stderr.
func stripProfile(s string) string {
	var keep []string
	for _, l := range strings.Split(s, "\n") {
		if !strings.Contains(l, "profile: cpu profiling") {
			keep = append(keep, l)
		}
	}
	return strings.Join(keep, "\n")
}

func cliFailed(res common.CLIResult) bool {
	return res.ExitCode != 0 || strings.Contains(res.Stderr, "panic:") || strings.Contains(res.Stderr, "fatal error")
}

// parseTable reads the rows of a two-column tablewriter listing: | a | b |
func parseTable(out string) (header []string, rows [][]string) {
	for _, line := range strings.Split(out, "\n") {
		line = strings.TrimSpace(line)
		if !strings.HasPrefix(line, "|") || strings.HasPrefix(line, "|-") {
			continue
		}
		cells := strings.Split(strings.Trim(line, "|"), "|")
		for i := range cells {
			cells[i] = strings.TrimSpace(cells[i])
		}
		if header == nil {
			header = cells
			continue
		}
		rows = append(rows, cells)
	}
	return
}

// ---------------------------------------------------------------------------------------------- (a) models

func runModel(c *run.Ctx, o *run.Outcome, seq int) {
	r := c.Rng
	opts := modelgen.Opts{MaxClasses: 8, MaxMethods: 40, MaxOut: 6, Quotes: true, DefaultPkg: true, Overloads: true, Ctors: true}
	if r.Chance(1, 2) {
		opts = modelgen.Opts{MaxClasses: 3, MaxMethods: 8, MaxOut: 4, Quotes: false, DefaultPkg: true, Overloads: true, Ctors: true}
	}
	if seq < 20 {
		opts = modelgen.Opts{MaxClasses: 2, MaxMethods: 4, MaxOut: 3, Quotes: false, DefaultPkg: true, Overloads: true, Ctors: true}
	}
	m := modelgen.Generate(r.Fork(), opts)
	ctorCallsBecomeCreations(m)
	sameLineGroups, sameLineSites := 0, 0
	if seq%2 == 1 || seq < 20 {
		sameLineGroups, sameLineSites = shareLines(r.Fork(), m)
	}
	twinPairs := 0
	if seq%3 == 0 || seq < 20 {
		twinPairs = plantCaseTwins(r.Fork(), m)
	}
	deps := common.ToCoca(m)
	spreadColumns(deps)
	want := oracle.EvalCallCounts(m)
	declared := m.Declared()
	sites, toUndeclared, noReceiver, creations, repeated := 0, 0, 0, 0, false
	for _, me := range m.Methods() {
		for _, cl := range me.Calls {
			sites++
			switch {
			case cl.Class == "":
				noReceiver++
			case cl.Name == "":
				creations++
			default:
				if _, ok := declared[cl.Full()]; !ok {
					toUndeclared++
				}
			}
		}
	}
	resolving := 0
	for _, n := range want {
		resolving += n
		if n >= 2 {
			repeated = true
		}
	}
	o.Shape = run.ShapeHash("model", m.ShapeKey())
	o.NonTrivial = repeated && toUndeclared > 0
	o.Count("model_cases", 1)
	o.Count("model_methods_declared", len(declared))
	o.Count("model_call_sites", sites)
	o.Count("model_call_sites_resolving_to_declared", resolving)
	o.Count("model_call_sites_to_undeclared_names", toUndeclared)
	o.Count("model_call_sites_without_receiver", noReceiver)
	o.Count("model_object_creations", creations)
	nDecl := map[string]int{}
	for _, me := range m.Methods() {
		nDecl[me.Full()]++
	}
	for k, n := range nDecl {
		if n > 1 {
			o.Count("model_names_declared_more_than_once", 1)
			if want[k] > 0 {
				o.Count("model_overloaded_names_called", 1)
				o.Count("model_call_sites_resolving_to_overloaded_names", want[k])
			}
		}
	}
	for _, me := range m.Methods() {
		if !me.IsCtor {
			continue
		}
		o.Count("model_constructor_functions", 1)
		for _, cl := range me.Calls {
			if cl.Class != "" && want[cl.Full()] > 0 {
				o.Count("model_call_sites_inside_constructors_resolving_to_declared", 1)
			}
		}
	}
	o.Count("model_called_case_twin_pairs", twinPairs)
	if twinPairs > 0 {
		o.Count("model_cases_with_called_case_twins", 1)
	}
	for _, cl := range m.Classes {
		if cl.Pkg == "" {
			o.Count("model_classes_in_default_package", 1)
		}
	}
	for k, n := range want {
		if strings.HasPrefix(k, ".") {
			o.Count("model_called_methods_of_default_package_classes", 1)
			o.Count("model_call_sites_resolving_to_default_package_methods", n)
		}
	}
	o.Count("model_same_callee_same_line_groups", sameLineGroups)
	o.Count("model_call_sites_in_same_line_groups", sameLineSites)
	if sameLineGroups > 0 {
		o.Count("model_cases_with_same_line_groups", 1)
	}
	o.Count("model_methods_never_called", len(declared)-len(want))
	o.Seen("graph_modes", m.Shape)
	witness := map[string]interface{}{"kind": "model", "model": m.Describe(), "expected_counts": want}
	o.Witness = witness

	var got map[string]int
	panicked, val, site := run.Guard(func() { got = count.BuildCallMap(deps) })
	if panicked {
		o.Violate("panic@"+site, "BuildCallMap panicked: %s", val)
		return
	}
	witness["observed_counts"] = got
	o.Count("model_map_keys_expected", len(want))
	o.Count("model_map_keys_observed", len(got))
	matched := 0
	for k, v := range want {
		if got[k] == v {
			matched++
		}
	}
	o.Count("model_map_keys_matched", matched)
	for _, mm := range oracle.EvalCheckCallMap(m, got) {
		o.Violate(mm.Sig, "%s", mm.Msg)
	}

	// the listing as `coca count` builds it (SortWord over the count map), five times in this process: the same
	// model has to come out as the same rows in the same order every time
	var listings [][]oracle.EvalPair
	panicked, val, site = run.Guard(func() {
		for i := 0; i < 5; i++ {
			var rows []oracle.EvalPair
			for _, pr := range string_helper.SortWord(count.BuildCallMap(deps)) {
				rows = append(rows, oracle.EvalPair{Key: pr.Key, Value: pr.Value})
			}
			listings = append(listings, rows)
		}
	})
	if panicked {
		o.Violate("panic@"+site, "SortWord(BuildCallMap) panicked: %s", val)
		return
	}
	o.Count("model_in_process_listings", len(listings))
	for _, mm := range oracle.EvalCheckCountListing(m, listings[0]) {
		o.Violate("listing-"+mm.Sig, "SortWord(BuildCallMap): %s", mm.Msg)
	}
	for i := 1; i < len(listings); i++ {
		if ms := oracle.EvalSameOrder(listings[0], listings[i]); len(ms) > 0 {
			witness["listing_1"] = listings[0]
			witness["listing_n"] = listings[i]
			o.Violate(ms[0].Sig, "SortWord(BuildCallMap) listed %d times in one process: %s", len(listings), ms[0].Msg)
			break
		}
	}

	if c.CocaBin != "" && seq%cliEvery(c.Tier, "model") == 0 {
		o.Count("cli_cases", 1)
		o.Count("cli_count_cases", 1)
		dir := c.Scratch()
		common.WriteJSON(filepath.Join(dir, "deps.json"), deps)
		var runs [][]oracle.EvalPair
		nRuns := 2
		if twinPairs > 0 {
			nRuns = 4 // tied rows swap with probability 1/2 per run
		}
		for i := 0; i < nRuns; i++ {
			rows, ok := runCount(c, o, dir, "count", "-d", "deps.json")
			if !ok {
				return
			}
			runs = append(runs, rows)
		}
		witness["cli_rows_run1"] = runs[0]
		witness["cli_rows_run2"] = runs[1]
		for _, mm := range oracle.EvalCheckCountListing(m, runs[0]) {
			o.Violate("cli-"+mm.Sig, "`coca count`: %s", mm.Msg)
		}
		for i := 1; i < len(runs); i++ {
			if ms := oracle.EvalSameOrder(runs[0], runs[i]); len(ms) > 0 {
				o.Violate("cli-"+ms[0].Sig, "`coca count` %d times on the same deps.json: %s", len(runs), ms[0].Msg)
				break
			}
		}
		o.Count("cli_count_rows", len(runs[0]))
		if len(runs[0]) >= 3 {
			o.Count("cli_count_listings_with_3plus_rows", 1)
		}
		{
			// "top k": k ranges over 1 .. rows+2 (asking for the top 10 of a project with 3 referenced methods is ordinary use)
			k := r.Range(1, len(want)+2)
			if k > len(want) {
				o.Count("cli_count_top_exceeds_rows", 1)
			}
			var tops [][]oracle.EvalPair
			for i := 0; i < 2; i++ {
				rows, ok := runCount(c, o, dir, "count", "-d", "deps.json", "-t", strconv.Itoa(k))
				if !ok {
					return
				}
				tops = append(tops, rows)
			}
			o.Count("cli_count_top_runs", 1)
			wantN := map[string]int{}
			for k2, v := range want {
				wantN[oracle.EvalNormKey(k2)] = v
			}
			for _, row := range tops[0] {
				if wantN[oracle.EvalNormKey(row.Key)] != row.Value {
					o.Violate("cli-count-top-row-wrong", "`coca count -t %d` prints %q: %d, the model gives %d", k, row.Key, row.Value, want[row.Key])
				}
			}
			for _, mm := range oracle.EvalSameOrder(tops[0], tops[1]) {
				o.Violate(mm.Sig, "`coca count -t %d` twice on the same deps.json: %s", k, mm.Msg)
			}
		}
	}
	if c.Index < 64 {
		o.Sample = map[string]interface{}{"kind": "model", "model": m.Describe(), "expected_counts": want, "observed_counts": got}
	}
}

// ctorCallsBecomeCreations: modelgen lets any function be a call target, also a constructor function (full name
// pkg.C.C). Real models record a use of a constructor as an object creation (pkg.C, empty function name), so
// such calls are rewritten into creations; whether pkg.C.C is a "project method" with a count of its own is
// thereby not asserted either way. The calls written INSIDE constructors stay as they are.
func ctorCallsBecomeCreations(m *modelgen.Model) {
	ctor := map[string]bool{}
	for _, me := range m.Methods() {
		if me.IsCtor {
			ctor[me.Full()] = true
		}
	}
	if len(ctor) == 0 {
		return
	}
	for _, me := range m.Methods() {
		for i := range me.Calls {
			if me.Calls[i].Class != "" && me.Calls[i].Name != "" && ctor[me.Calls[i].Full()] {
				me.Calls[i].Name = ""
			}
		}
	}
}

// caseVariant changes the letter case of the last camel word of a name (getUrl -> getURL, saveLOAD -> saveload;
// a single lower-case word gets its last letter capitalised): a different Java identifier that is equal after
// case folding.
func caseVariant(name string) string {
	end := len(name)
	for end > 0 && !isLetter(name[end-1]) {
		end--
	}
	if end < 2 {
		return name
	}
	j := end - 1
	for k := end - 1; k >= 1 && isLetter(name[k]); k-- {
		if name[k] >= 'A' && name[k] <= 'Z' {
			j = k
			break
		}
	}
	tail := name[j:end]
	if up := strings.ToUpper(tail); up != tail {
		return name[:j] + up + name[end:]
	}
	return name[:j] + strings.ToLower(tail) + name[end:]
}

func isLetter(b byte) bool { return b >= 'a' && b <= 'z' || b >= 'A' && b <= 'Z' }

// plantCaseTwins adds CALLED declarations whose full names differ only in letter case from another called
// declaration: a method twin in the same class (getUrl / getURL) and sometimes a class twin (IoUtil / IOUtil)
// with a method of the same name. The twins get a different number of call sites than the original where
// possible. Returns the number of twin pairs in which both sides are called.
func plantCaseTwins(r *run.Rand, m *modelgen.Model) int {
	all := m.Methods()
	declared := m.Declared()
	counts := oracle.EvalCallCounts(m)
	var called []*modelgen.Method
	for _, me := range all {
		if counts[me.Full()] > 0 {
			called = append(called, me)
		}
	}
	if len(called) == 0 {
		return 0
	}
	line := 100000
	callIt := func(t *modelgen.Method, n int) {
		for ; n > 0; n-- {
			from := all[r.Intn(len(all))]
			line++
			from.Calls = append(from.Calls, modelgen.CallRef{Pkg: t.Pkg, Class: t.Class, Name: t.Name, Line: line})
		}
	}
	pairs := 0
	for k := r.Range(1, 2); k > 0; k-- {
		t := called[r.Intn(len(called))]
		if r.Chance(1, 3) {
			// class twin with a method of the same name
			cn := caseVariant(t.Class)
			if cn == t.Class {
				continue
			}
			tw := &modelgen.Method{Pkg: t.Pkg, Class: cn, Name: t.Name}
			if _, ok := declared[tw.Full()]; ok {
				continue
			}
			exists := false
			for _, cl := range m.Classes {
				if cl.Pkg == t.Pkg && cl.Name == cn {
					exists = true
				}
			}
			if exists {
				continue
			}
			m.Classes = append(m.Classes, &modelgen.Class{Pkg: t.Pkg, Name: cn, Methods: []*modelgen.Method{tw}})
			declared[tw.Full()] = tw
			callIt(tw, counts[t.Full()]+r.Range(1, 2))
			pairs++
			continue
		}
		tn := caseVariant(t.Name)
		tw := &modelgen.Method{Pkg: t.Pkg, Class: t.Class, Name: tn}
		if _, ok := declared[tw.Full()]; ok || tn == t.Name {
			continue
		}
		for _, cl := range m.Classes {
			if cl.Pkg == t.Pkg && cl.Name == t.Class {
				cl.Methods = append(cl.Methods, tw)
			}
		}
		declared[tw.Full()] = tw
		callIt(tw, counts[t.Full()]+r.Range(1, 2))
		pairs++
	}
	return pairs
}

// shareLines rewrites the positions of a synthetic model the way real sources look: one caller invokes the
// SAME callee two or three times on ONE line (`repo.size() + repo.size()`), besides its calls on other lines;
// sometimes a different callee shares that line as well. It returns the number of (caller, callee, line)
// groups with >= 2 call sites and the number of call sites in them.
func shareLines(r *run.Rand, m *modelgen.Model) (groups, sites int) {
	for _, me := range m.Methods() {
		if len(me.Calls) == 0 || !r.Chance(2, 3) {
			continue
		}
		for k := r.Range(1, 2); k > 0; k-- {
			i := r.Intn(len(me.Calls))
			orig := me.Calls[i]
			copies := r.Range(1, 2)
			var ins []modelgen.CallRef
			for j := 0; j < copies; j++ {
				ins = append(ins, orig) // same callee, same line
			}
			if r.Chance(1, 3) && len(me.Calls) > 1 {
				// another call of the caller moves onto that line too
				j := r.Intn(len(me.Calls))
				if j != i {
					me.Calls[j].Line = orig.Line
				}
			}
			if r.Bool() {
				// adjacent: f(..) + f(..)
				rest := append([]modelgen.CallRef(nil), me.Calls[i+1:]...)
				me.Calls = append(append(me.Calls[:i+1], ins...), rest...)
			} else {
				// something else in between: f(..) + g(..) + f(..)
				me.Calls = append(me.Calls, ins...)
			}
		}
	}
	declared := m.Declared()
	for _, me := range m.Methods() {
		per := map[string]int{}
		for _, cl := range me.Calls {
			if cl.Class == "" {
				continue
			}
			if _, ok := declared[cl.Full()]; ok {
				per[cl.Full()+"@"+strconv.Itoa(cl.Line)]++
			}
		}
		for _, n := range per {
			if n >= 2 {
				groups++
				sites += n
			}
		}
	}
	return
}

// spreadColumns gives the call records of one line different start columns, in record order.
func spreadColumns(deps []core_domain.CodeDataStruct) {
	for i := range deps {
		for j := range deps[i].Functions {
			onLine := map[int]int{}
			calls := deps[i].Functions[j].FunctionCalls
			for k := range calls {
				n := onLine[calls[k].Position.StartLine]
				onLine[calls[k].Position.StartLine] = n + 1
				calls[k].Position.StartLinePosition = 8 + 19*n
				calls[k].Position.StopLinePosition = 8 + 19*n + 11
			}
		}
	}
}

func runCount(c *run.Ctx, o *run.Outcome, dir string, args ...string) ([]oracle.EvalPair, bool) {
	res := common.RunCLI(c.CocaBin, dir, nil, args...)
	if res.TimedOut {
		o.SetInconclusive("cli watchdog")
		return nil, false
	}
	if cliFailed(res) {
		sig := "cli-crash-count"
		if strings.Contains(res.Stderr, "slice bounds out of range") && len(args) > 3 {
			sig = "cli-crash-count-top-exceeds-rows"
		}
		o.Violate(sig, "`coca %s` exit %d: %s", strings.Join(args, " "), res.ExitCode, head(stripProfile(res.Stderr)))
		return nil, false
	}
	hdr, rows := parseTable(res.Stdout)
	if len(hdr) != 2 {
		o.Violate("cli-count-no-table", "`coca %s` printed no two-column table: %s", strings.Join(args, " "), head(res.Stdout))
		return nil, false
	}
	var out []oracle.EvalPair
	for _, row := range rows {
		if len(row) != 2 {
			o.Violate("cli-count-row-malformed", "row %v", row)
			return nil, false
		}
		n, err := strconv.Atoi(row[0])
		if err != nil {
			o.Violate("cli-count-row-malformed", "row %v", row)
			return nil, false
		}
		out = append(out, oracle.EvalPair{Key: row[1], Value: n})
	}
	return out, true
}

// -------------------------------------------------------------------------------------------- (b) projects

func runProject(c *run.Ctx, o *run.Outcome, seq int) {
	r := c.Rng
	opts := evalgen.Opts{MaxClasses: 6, MaxMethods: 7, NullCompare: true, DefaultPkg: true, Overloads: true, Ctors: true, ParamAnnos: true}
	if seq < 16 || seq%4 == 0 {
		// small cases give small witnesses: the first violating case of a signature is the one recorded
		opts = evalgen.Opts{MaxClasses: 1, MaxMethods: 2, NullCompare: true, DefaultPkg: true, Overloads: true, Ctors: true, ParamAnnos: true}
	}
	p := evalgen.Generate(r.Fork(), opts)
	if err := evalgen.SelfCheck(p); err != nil {
		o.SetInconclusive("generator self-check: " + err.Error())
		return
	}
	for _, cl := range p.Classes {
		if ne, first := common.JavaSyntaxErrors(cl.Text); ne > 0 {
			o.SetInconclusive("generated file rejected by coca's Java parser: " + first)
			return
		}
	}
	want := oracle.EvalExpected(p)
	var shape []string
	staticMulti := false
	for _, cl := range p.Classes {
		s := cl.Kind + "("
		for _, m := range cl.Methods {
			s += m.ModKey() + "/" + m.NullReturn + "/" + m.AnnoPos + "/" + strconv.Itoa(len(m.Calls)) + "." + strconv.Itoa(m.SameLineCalls) + ";"
			o.Count("project_methods", 1)
			if m.ParamAnno != "" && !m.Nullable() {
				o.Count("project_non_nullable_methods_with_annotated_parameter", 1)
			}
			if m.OverloadOf != "" {
				o.Count("project_overloaded_names", 1)
			}
			o.Seen("modifier_orders", m.ModKey())
			if m.Static {
				o.Count("project_static_methods", 1)
				if len(m.Mods) >= 2 {
					staticMulti = true
				}
				if m.Mods[0] == "static" && len(m.Mods) >= 2 {
					o.Count("project_static_methods_static_written_first", 1)
				}
			}
			if m.NullReturn != "" {
				o.Count("project_methods_returning_null_"+m.NullReturn, 1)
				if m.NullNested {
					o.Count("project_methods_returning_null_nested", 1)
				}
			}
			if m.NullAnno != "" {
				o.Count("project_methods_null_annotation_"+m.AnnoPos, 1)
			}
			if m.Reasons() >= 2 {
				o.Count("project_methods_nullable_on_2plus_grounds", 1)
			}
			if m.NullAnno != "" && m.NullReturn != "" {
				o.Count("project_methods_annotated_and_returning_null", 1)
			}
			if m.NullCompare {
				o.Count("project_decoy_null_comparison_returns", 1)
			}
			if m.NullDecoy && !m.Nullable() {
				o.Count("project_decoy_null_outside_return", 1)
			}
		}
		if cl.Ctor != nil {
			o.Count("project_constructors", 1)
			s += "ctor" + strconv.Itoa(len(cl.Ctor.Calls)) + cl.Ctor.ParamAnno
			if cl.Ctor.ParamAnno != "" {
				o.Count("project_constructors_with_annotated_parameter", 1)
			}
		}
		shape = append(shape, s+")")
		o.Count("project_classes_"+cl.Kind, 1)
		if cl.Pkg == "" {
			o.Count("project_classes_without_package_line", 1)
			for _, m := range cl.Methods {
				if m.Nullable() {
					o.Count("project_nullable_methods_in_default_package", 1)
				}
			}
		}
		if cl.Kind == evalgen.KindUtil && strings.Contains(strings.ToLower(cl.Name), "service") {
			o.Count("project_classes_util_named_service_too", 1)
		}
	}
	o.Shape = run.ShapeHash("project", strings.Join(shape, "|"))
	o.NonTrivial = len(p.Classes) >= 2 && staticMulti && len(want.Nullable) > 0
	o.Count("project_cases", 1)
	o.Count("project_nullable_methods_planted", len(want.Nullable))

	dir := filepath.Join(c.Scratch(), "proj")
	for _, cl := range p.Classes {
		path := filepath.Join(dir, filepath.FromSlash(cl.RelPath))
		if err := os.MkdirAll(filepath.Dir(path), 0o755); err != nil {
			o.SetInconclusive("cannot write project: " + err.Error())
			return
		}
		if err := ioutil.WriteFile(path, []byte(cl.Text), 0o644); err != nil {
			o.SetInconclusive("cannot write project: " + err.Error())
			return
		}
	}
	witness := map[string]interface{}{"kind": "project", "files": p.Files(), "expected": want}
	o.Witness = witness

	var got oracle.EvalSummary
	useCLI := c.CocaBin != "" && seq%cliEvery(c.Tier, "project") == 0
	if useCLI {
		o.Count("cli_cases", 1)
		o.Count("cli_evaluate_cases", 1)
		res := common.RunCLI(c.CocaBin, c.Scratch(), nil, "analysis", "-p", dir)
		if res.TimedOut {
			o.SetInconclusive("cli watchdog")
			return
		}
		if cliFailed(res) {
			o.Violate("cli-crash-analysis", "`coca analysis -p` exit %d: %s", res.ExitCode, head(res.Stderr))
			return
		}
		res = common.RunCLI(c.CocaBin, c.Scratch(), nil, "evaluate")
		if res.TimedOut {
			o.SetInconclusive("cli watchdog")
			return
		}
		if cliFailed(res) {
			o.Violate("cli-crash-evaluate", "`coca evaluate` exit %d: %s", res.ExitCode, head(res.Stderr))
			return
		}
		// the reference counts of the analysed project: `coca count` over the deps.json `coca analysis` wrote
		var full []core_domain.CodeDataStruct
		db, derr := ioutil.ReadFile(filepath.Join(c.Scratch(), "coca_reporter", "deps.json"))
		if derr != nil || json.Unmarshal(db, &full) != nil {
			o.Violate("cli-no-output", "`coca analysis` wrote no readable coca_reporter/deps.json")
			return
		}
		if rows, ok := runCount(c, o, c.Scratch(), "count"); ok {
			o.Count("cli_count_cases_over_analysed_projects", 1)
			counts := map[string]int{}
			for _, row := range rows {
				if _, dup := counts[row.Key]; dup {
					o.Violate("cli-count-listing-duplicate-row", "`coca count`: %q is listed twice", row.Key)
				}
				counts[row.Key] = row.Value
			}
			checkProjectCounts(o, p, witness, full, counts, "cli-")
		} else {
			return
		}
		// two observation points: the printed table (numbers only) and coca_reporter/evaluate.json
		tbl, nNullable, ok := parseEvaluateTable(res.Stdout)
		if !ok {
			o.Violate("cli-evaluate-no-table", "`coca evaluate` printed no summary table: %s", head(res.Stdout))
			return
		}
		witness["observed_table"] = map[string]interface{}{"summary": tbl, "nullable_count": nNullable}
		for _, mm := range oracle.EvalCheckNumbers(p, tbl, nNullable) {
			o.Violate("cli-table-"+mm.Sig, "`coca evaluate` table: %s", mm.Msg)
		}
		var model evaluator.EvaluateModel
		b, err := ioutil.ReadFile(filepath.Join(c.Scratch(), "coca_reporter", "evaluate.json"))
		if err != nil || json.Unmarshal(b, &model) != nil {
			o.Violate("cli-evaluate-json-unreadable", "`coca evaluate` left coca_reporter/evaluate.json with %d bytes that are no JSON document (read error: %v); the table it printed: %+v", len(b), err, tbl)
			return
		}
		o.Count("cli_evaluate_json_read", 1)
		got = fromModel(model)
	} else {
		var model evaluator.EvaluateModel
		var full []core_domain.CodeDataStruct
		var counts map[string]int
		panicked, val, site := run.Guard(func() {
			ia := javaapp.NewJavaIdentifierApp()
			ident := ia.AnalysisPath(dir)
			fa := javaapp.NewJavaFullApp()
			full = fa.AnalysisPath(dir, ident)
			model = evaluate.NewEvaluateAnalyser().Analysis(full, ident)
			counts = count.BuildCallMap(full)
		})
		if panicked {
			o.Violate("panic@"+site, "identifier pass / full pass / Analyser.Analysis / BuildCallMap panicked: %s", val)
			return
		}
		got = fromModel(model)
		checkProjectCounts(o, p, witness, full, counts, "")
	}
	witness["observed"] = got
	o.Count("project_nullable_methods_observed", len(got.Nullable))
	inWant := map[string]bool{}
	for _, n := range want.Nullable {
		inWant[oracle.EvalNormKey(n)] = true
	}
	for _, n := range got.Nullable {
		if inWant[oracle.EvalNormKey(n)] {
			o.Count("project_nullable_methods_matched", 1)
		}
	}
	o.Count("project_static_methods_observed", got.StaticMethodCount)
	for _, mm := range oracle.EvalCheckSummary(p, got) {
		sig := mm.Sig
		if useCLI {
			sig = "cli-" + sig
		}
		o.Violate(sig, "%s", mm.Msg)
	}
	if c.Index < 64 {
		smp := map[string]interface{}{"kind": "project", "expected": want, "observed": got}
		if len(p.Classes) > 0 && len(p.Classes[0].Text) < 3000 {
			smp["first_file"] = p.Classes[0].RelPath
			smp["first_file_text"] = p.Classes[0].Text
		}
		o.Sample = smp
	}
}

// parseEvaluateTable reads the numbers of the table `coca evaluate` prints:
// | Nullable / Return Null | n | Method | methods | ..., | Utils | n | Class | classes | ..., | Static Method | n | Method | methods | ...
func parseEvaluateTable(out string) (s oracle.EvalSummary, nullable int, ok bool) {
	_, rows := parseTable(out)
	found := 0
	for _, row := range rows {
		if len(row) < 4 {
			continue
		}
		n, err1 := strconv.Atoi(row[1])
		total, err2 := strconv.Atoi(row[3])
		if err1 != nil || err2 != nil {
			continue
		}
		switch row[0] {
		case "Nullable / Return Null":
			nullable, s.MethodCount = n, total
			found++
		case "Utils":
			s.UtilsCount, s.ClassCount = n, total
			found++
		case "Static Method":
			s.StaticMethodCount = n
			found++
		}
	}
	return s, nullable, found == 3
}

// checkProjectCounts: the reference counts of the analysed project equal the number of call entries the model
// (the full pass's output) records for each declared method. The expectation is taken from the recorded model,
// not from the sources: which receiver a call resolves to is C02's business. What the generator planted
// (unqualified same-class calls, two or three of them on one line) only feeds the counters that show the
// recorded model really contains same-line call sites.
func checkProjectCounts(o *run.Outcome, p *evalgen.Project, witness map[string]interface{}, full []core_domain.CodeDataStruct, counts map[string]int, pre string) {
	var declared []string
	var records []oracle.EvalCallRecord
	for _, ds := range full {
		for _, fn := range ds.Functions {
			caller := ds.Package + "." + ds.NodeName + "." + fn.Name
			if !fn.IsConstructor {
				declared = append(declared, caller) // a constructor is a caller here, never a counted callee
			}
			for _, cl := range fn.FunctionCalls {
				callee := cl.Package + "." + cl.NodeName + "." + cl.FunctionName
				if cl.FunctionName == "" {
					callee = cl.Package + "." + cl.NodeName
				}
				records = append(records, oracle.EvalCallRecord{Caller: caller, Callee: callee, Line: cl.Position.StartLine, Col: cl.Position.StartLinePosition, InCtor: fn.IsConstructor})
			}
		}
	}
	want := oracle.EvalCountsFromRecords(declared, records)
	witness["recorded_call_counts"] = want
	witness["observed_call_counts"] = counts
	isDecl := map[string]bool{}
	for _, d := range declared {
		isDecl[d] = true
	}
	per := map[string]int{}
	for _, rc := range records {
		if isDecl[rc.Callee] {
			per[rc.Caller+">"+rc.Callee+"@"+strconv.Itoa(rc.Line)]++
		}
	}
	for _, n := range per {
		if n >= 2 {
			o.Count("project_recorded_same_callee_same_line_groups", 1)
			o.Count("project_recorded_call_sites_in_same_line_groups", n)
		}
	}
	for _, rc := range records {
		if rc.InCtor && isDecl[rc.Callee] {
			o.Count("project_recorded_call_sites_inside_constructors", 1)
		}
	}
	planted := map[string]int{}
	for _, cl := range p.Classes {
		members := cl.Methods
		if cl.Ctor != nil {
			members = append([]*evalgen.Method{cl.Ctor}, cl.Methods...)
			o.Count("project_planted_call_sites_inside_constructors", len(cl.Ctor.Calls))
		}
		for _, m := range members {
			o.Count("project_planted_same_line_call_lines", m.SameLineCalls)
			for _, pc := range m.Calls {
				planted[cl.Pkg+"."+cl.Name+"."+pc.Callee]++
				o.Count("project_planted_call_sites", 1)
			}
		}
	}
	for k, n := range planted {
		if want[k] == n {
			o.Count("project_planted_callees_recorded_as_planted", 1)
		} else {
			o.Count("project_planted_callees_recorded_differently", 1)
		}
	}
	nDecl := map[string]int{}
	for _, d := range declared {
		nDecl[d]++
	}
	for k, n := range nDecl {
		if n > 1 && want[k] > 0 {
			o.Count("project_overloaded_names_called", 1)
			o.Count("project_recorded_call_sites_of_overloaded_names", want[k])
		}
	}
	o.Count("project_count_keys_expected", len(want))
	o.Count("project_count_keys_observed", len(counts))
	for _, mm := range oracle.EvalCheckRecordedCounts(declared, records, counts) {
		o.Violate(pre+"project-"+mm.Sig, "reference counts of the analysed project: %s", mm.Msg)
	}
}

func fromModel(m evaluator.EvaluateModel) oracle.EvalSummary {
	s := oracle.EvalSummary{ClassCount: m.Summary.ClassCount, MethodCount: m.Summary.MethodCount,
		StaticMethodCount: m.Summary.StaticMethodCount, UtilsCount: m.Summary.UtilsCount}
	s.Nullable = append(s.Nullable, m.Nullable.Items...)
	sort.Strings(s.Nullable)
	return s
}

// -------------------------------------------------------------------------------------------- (c) concepts

func runConcept(c *run.Ctx, o *run.Outcome, seq int) {
	r := c.Rng
	opts := evalgen.ConceptOpts{MaxClasses: 4, MaxMethods: 8, MaxWords: 5}
	if seq < 16 || seq%4 == 0 {
		opts = evalgen.ConceptOpts{MaxClasses: 1, MaxMethods: 2, MaxWords: 4}
	}
	cc := evalgen.GenerateConcept(r.Fork(), opts)
	var deps []core_domain.CodeDataStruct
	var shape []string
	for _, cl := range cc.Classes {
		ds := core_domain.CodeDataStruct{NodeName: cl.Name, Package: cl.Pkg, Type: "Class", FilePath: cl.Pkg + "/" + cl.Name + ".java"}
		for _, m := range cl.Methods {
			ds.Functions = append(ds.Functions, core_domain.CodeFunction{Name: m.Name, ReturnType: "void"})
			if m.Words[0].Lookalike {
				o.Count("concept_names_whose_first_word_begins_with_get_or_set", 1)
				if len(m.Words) == 1 {
					o.Count("concept_names_that_are_one_such_word", 1)
				}
			}
			s := ""
			for _, w := range m.Words {
				if w.Digit && len(w.Text) >= 19 {
					o.Count("concept_digit_groups_of_19plus_digits", 1)
				}
				if w.Lookalike {
					o.Count("concept_words_beginning_with_get_or_set", 1)
				}
				switch {
				case w.Digit:
					s += "d"
				case w.Stop:
					s += "s"
				default:
					s += "w"
				}
			}
			shape = append(shape, s)
		}
		shape = append(shape, "/")
		deps = append(deps, ds)
	}
	words, stops, digits := oracle.EvalConceptWords(cc)
	o.Shape = run.ShapeHash("concept", strings.Join(shape, ","))
	o.NonTrivial = words+stops >= 3 && stops >= 1
	o.Count("concept_cases", 1)
	o.Count("concept_method_names", len(cc.Names()))
	o.Count("concept_words_planted", words)
	o.Count("concept_stop_words_planted", stops)
	o.Count("concept_digit_groups_planted", digits)
	witness := map[string]interface{}{"kind": "concept", "method_names": cc.Names(), "expected_sum": words}
	o.Witness = witness

	var reported []oracle.EvalPair
	if c.CocaBin != "" && seq%cliEvery(c.Tier, "concept") == 0 {
		o.Count("cli_cases", 1)
		o.Count("cli_concept_cases", 1)
		dir := c.Scratch()
		if deps == nil {
			deps = []core_domain.CodeDataStruct{}
		}
		common.WriteJSON(filepath.Join(dir, "deps.json"), deps)
		res := common.RunCLI(c.CocaBin, dir, nil, "concept", "-d", "deps.json")
		if res.TimedOut {
			o.SetInconclusive("cli watchdog")
			return
		}
		if cliFailed(res) {
			o.Violate("cli-crash-concept", "`coca concept` exit %d: %s", res.ExitCode, head(res.Stderr))
			return
		}
		hdr, rows := parseTable(res.Stdout)
		if len(hdr) != 2 {
			o.Violate("cli-concept-no-table", "`coca concept` printed no two-column table: %s", head(res.Stdout))
			return
		}
		for _, row := range rows {
			n, err := strconv.Atoi(row[len(row)-1])
			if len(row) != 2 || err != nil {
				o.Violate("cli-concept-row-malformed", "row %v", row)
				return
			}
			reported = append(reported, oracle.EvalPair{Key: row[0], Value: n})
		}
		for _, mm := range oracle.EvalCheckConcept(cc, reported) {
			o.Violate("cli-"+mm.Sig, "`coca concept`: %s", mm.Msg)
		}
	} else {
		panicked, val, site := run.Guard(func() {
			for _, pr := range concept.NewConceptAnalyser().Analysis(&deps) {
				reported = append(reported, oracle.EvalPair{Key: pr.Key, Value: pr.Value})
			}
		})
		if panicked {
			o.Violate("panic@"+site, "ConceptAnalyser.Analysis panicked: %s", val)
			return
		}
		for _, mm := range oracle.EvalCheckConcept(cc, reported) {
			o.Violate(mm.Sig, "%s", mm.Msg)
		}
	}
	witness["reported"] = reported
	sum := 0
	for _, pr := range reported {
		sum += pr.Value
	}
	o.Count("concept_words_reported", sum)
	if c.Index < 64 {
		o.Sample = map[string]interface{}{"kind": "concept", "method_names": cc.Names(), "expected_sum": words, "reported": reported}
	}
}
