#!/bin/bash
# Builds the framework offline from files on disk (harness binaries + coca CLI) to warm the build cache.
export GOFLAGS=-mod=mod GOPROXY=off GOSUMDB=off GOTOOLCHAIN=local
cd /verif/harness || exit 1
mkdir -p /verif/bin /verif/evidence
cp /repo/go.sum go.sum
go build -tags verif -o /verif/bin/ ./cmd/... || exit 1
(cd /repo && go build -tags verif -o /verif/bin/coca . ) || exit 1
echo setup ok
