#!/bin/bash
# Builds the framework offline from files on disk (harness binaries + coca CLI) to warm the build cache.
export GOFLAGS=-mod=mod GOPROXY=off GOSUMDB=off GOTOOLCHAIN=local
ROOT="$(cd "$(dirname "${BASH_SOURCE[0]}")" && pwd)"
cd "$ROOT/harness" || exit 1
mkdir -p "$ROOT/bin" "$ROOT/evidence"
cp /repo/go.sum go.sum
go build -tags verif -o "$ROOT/bin/" ./cmd/... || exit 1
(cd /repo && go build -tags verif -o "$ROOT/bin/coca" . ) || exit 1
echo setup ok
